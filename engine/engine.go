package main

// Loading of /repo (current working tree + harness overlay) into SSA, and the
// state shared by all runs.

import (
	"sync/atomic"
	"fmt"
	"go/types"
	"os"
	"path/filepath"
	"sort"
	"strings"
	"sync"
	"time"

	"golang.org/x/tools/go/packages"
	"golang.org/x/tools/go/ssa"
	"golang.org/x/tools/go/ssa/ssautil"
)

type intrinsicFn func(fr *frame, args []value) value

type Engine struct {
	prog   *ssa.Program
	pkgs   []*packages.Package
	byPath map[string]*ssa.Package
	sizes  types.Sizes

	intrinsics map[string]intrinsicFn
	sinkPfx    []string
	targetPfx  string
	skipInit   map[string]bool
	sinkFuncs  map[string]bool // target functions treated as metrics/logging sinks (per check)

	runtimeErrorString types.Type

	crossCheck     bool
	crossSeen      atomic.Int64 // unsat assertion queries seen by the current harness
	concreteMode   bool
	concreteInputs map[string]uint64

	mu           sync.Mutex
	initFailures map[string]string
	initStoreSet map[*ssa.Package]map[*ssa.Global]bool

	loadTime time.Duration
}

const targetModule = "github.com/grafana/dskit"

var defaultSinks = []string{
	"github.com/go-kit/log",
	"github.com/prometheus/",
	"go.opentelemetry.io/",
	"github.com/grafana/dskit/spanlogger",
	"github.com/grafana/dskit/tracing",
	"github.com/opentracing/",
	"github.com/uber/jaeger",
	"log/slog",
	"log",
	"html/template",
	"text/template",
	"expvar",
	"flag",
}

// LoadEngine loads the packages matching patterns from repoDir with the overlay
// directory mapped into the package directories.
func LoadEngine(repoDir string, overlayDir string, patterns []string) (*Engine, error) {
	t0 := time.Now()
	overlay := make(map[string][]byte)
	if overlayDir != "" {
		err := filepath.Walk(overlayDir, func(p string, info os.FileInfo, err error) error {
			if err != nil || info.IsDir() || !strings.HasSuffix(p, ".go") {
				return err
			}
			rel, _ := filepath.Rel(overlayDir, p)
			data, err := os.ReadFile(p)
			if err != nil {
				return err
			}
			overlay[filepath.Join(repoDir, rel)] = data
			return nil
		})
		if err != nil {
			return nil, err
		}
	}
	cfg := &packages.Config{
		Mode:       packages.LoadAllSyntax,
		Dir:        repoDir,
		BuildFlags: []string{"-tags=verif,noasm,purego"},
		Overlay:    overlay,
		Env:        append(os.Environ(), "GOFLAGS=-mod=mod", "GOPROXY=off", "GOSUMDB=off", "GOTOOLCHAIN=local", "CGO_ENABLED=0"),
	}
	pkgs, err := packages.Load(cfg, patterns...)
	if err != nil {
		return nil, err
	}
	nerr := 0
	packages.Visit(pkgs, nil, func(p *packages.Package) {
		for _, e := range p.Errors {
			fmt.Fprintf(os.Stderr, "load error: %s: %v\n", p.PkgPath, e)
			nerr++
		}
	})
	if nerr > 0 {
		return nil, fmt.Errorf("%d package load errors", nerr)
	}
	prog, _ := ssautil.AllPackages(pkgs, ssa.InstantiateGenerics|ssa.SanityCheckFunctions&0)
	prog.Build()
	e := &Engine{
		prog:         prog,
		pkgs:         pkgs,
		byPath:       make(map[string]*ssa.Package),
		sizes:        types.SizesFor("gc", "amd64"),
		intrinsics:   make(map[string]intrinsicFn),
		sinkPfx:      defaultSinks,
		targetPfx:    targetModule,
		skipInit:     make(map[string]bool),
		sinkFuncs:    make(map[string]bool),
		initFailures: make(map[string]string),
		initStoreSet: make(map[*ssa.Package]map[*ssa.Global]bool),
	}
	for _, p := range prog.AllPackages() {
		e.byPath[p.Pkg.Path()] = p
	}
	for _, p := range []string{"runtime", "reflect", "internal/reflectlite", "syscall", "os", "internal/poll", "internal/cpu", "internal/godebug", "net", "net/http", "crypto/tls", "unicode"} {
		e.skipInit[p] = true
	}
	if rt := e.byPath["runtime"]; rt != nil {
		if t := rt.Type("errorString"); t != nil {
			e.runtimeErrorString = t.Object().Type()
		}
	}
	if e.runtimeErrorString == nil {
		return nil, fmt.Errorf("runtime package not loaded")
	}
	registerIntrinsics(e)
	e.loadTime = time.Since(t0)
	return e, nil
}

func (e *Engine) isSinkPkg(p *types.Package) bool {
	if p == nil {
		return false
	}
	path := p.Path()
	for _, s := range e.sinkPfx {
		if path == s || strings.HasPrefix(path, s) && (strings.HasSuffix(s, "/") || strings.HasPrefix(path[len(s):], "/")) {
			return true
		}
	}
	return false
}

func (e *Engine) isTargetPkg(p *types.Package) bool {
	if p == nil {
		return false
	}
	path := p.Path()
	return path == e.targetPfx || strings.HasPrefix(path, e.targetPfx+"/")
}

func (e *Engine) noteInitFailure(pkg, msg string) {
	e.mu.Lock()
	defer e.mu.Unlock()
	if _, ok := e.initFailures[pkg]; !ok {
		if len(msg) > 2500 {
			msg = msg[:2500]
		}
		e.initFailures[pkg] = msg
	}
}

// initStores returns the globals that pkg's init function (and the functions it
// calls in the same package named init#N) stores to.
func (e *Engine) initStores(pkg *ssa.Package) map[*ssa.Global]bool {
	e.mu.Lock()
	defer e.mu.Unlock()
	if s, ok := e.initStoreSet[pkg]; ok {
		return s
	}
	s := make(map[*ssa.Global]bool)
	if f := pkg.Func("init"); f != nil {
		for _, b := range f.Blocks {
			for _, in := range b.Instrs {
				if st, ok := in.(*ssa.Store); ok {
					if g, ok := st.Addr.(*ssa.Global); ok {
						s[g] = true
					}
				}
			}
		}
	}
	e.initStoreSet[pkg] = s
	return s
}

func (e *Engine) findFunc(pkgPath, name string) *ssa.Function {
	p := e.byPath[pkgPath]
	if p == nil {
		return nil
	}
	return p.Func(name)
}

func (e *Engine) initFailureList() []string {
	e.mu.Lock()
	defer e.mu.Unlock()
	var out []string
	for k, v := range e.initFailures {
		out = append(out, k+": "+v)
	}
	sort.Strings(out)
	return out
}

// namedType finds a named type in a loaded package.
func (e *Engine) namedType(pkgPath, name string) types.Type {
	p := e.byPath[pkgPath]
	if p == nil {
		return nil
	}
	if t := p.Type(name); t != nil {
		return t.Object().Type()
	}
	return nil
}

// findHarness looks a harness function up by name in the target packages.
func (e *Engine) findHarness(name string) *ssa.Function {
	for _, p := range e.prog.AllPackages() {
		if e.isTargetPkg(p.Pkg) {
			if f := p.Func(name); f != nil {
				return f
			}
		}
	}
	return nil
}


// crossCheckDue: the second solver re-decides the first 2000 unsat assertion
// queries of a harness and every 64th after that (one process start per query).
func (e *Engine) crossCheckDue() bool {
	n := e.crossSeen.Add(1)
	return n <= 2000 || n%64 == 0
}
