package main

// Symbolic terms: a hash-consed DAG over Bool, fixed-width bit-vectors and
// float64, with constant folding and a small simplifier. Go integer semantics
// are kept exactly (fixed width, wrap-around, signed/unsigned by operator).

import (
	"fmt"
	"math"
	"math/bits"
	"strconv"
	"strings"
)

type Sort uint8

const (
	SBool Sort = iota
	SBV8
	SBV16
	SBV32
	SBV64
	SFP64
)

func (s Sort) Bits() uint {
	switch s {
	case SBV8:
		return 8
	case SBV16:
		return 16
	case SBV32:
		return 32
	case SBV64:
		return 64
	case SFP64:
		return 64
	}
	return 1
}

func (s Sort) SMT() string {
	switch s {
	case SBool:
		return "Bool"
	case SFP64:
		return "(_ FloatingPoint 11 53)"
	}
	return fmt.Sprintf("(_ BitVec %d)", s.Bits())
}

func bvSort(bits uint) Sort {
	switch bits {
	case 8:
		return SBV8
	case 16:
		return SBV16
	case 32:
		return SBV32
	case 64:
		return SBV64
	}
	panic(fmt.Sprintf("bvSort(%d)", bits))
}

type Op uint8

const (
	OpConst Op = iota
	OpVar
	OpNot
	OpAnd
	OpOr
	OpEq
	OpIte
	OpAdd
	OpSub
	OpMul
	OpUDiv
	OpURem
	OpSDiv
	OpSRem
	OpBAnd
	OpBOr
	OpBXor
	OpBNot
	OpNeg
	OpShl
	OpLShr
	OpAShr
	OpULt
	OpULe
	OpSLt
	OpSLe
	OpZExt  // to t.sort
	OpSExt  // to t.sort
	OpTrunc // to t.sort (extract low bits)
	// floating point
	OpFAdd
	OpFSub
	OpFMul
	OpFDiv
	OpFNeg
	OpFLt
	OpFLe
	OpFEq
	OpSToF // signed bv -> fp64
	OpUToF // unsigned bv -> fp64
	OpFToS // fp64 -> signed bv (RTZ) of t.sort
	OpFToU
	OpFIsNaN
)

var opSMT = map[Op]string{
	OpNot: "not", OpAnd: "and", OpOr: "or", OpEq: "=", OpIte: "ite",
	OpAdd: "bvadd", OpSub: "bvsub", OpMul: "bvmul", OpUDiv: "bvudiv", OpURem: "bvurem",
	OpSDiv: "bvsdiv", OpSRem: "bvsrem", OpBAnd: "bvand", OpBOr: "bvor", OpBXor: "bvxor",
	OpBNot: "bvnot", OpNeg: "bvneg", OpShl: "bvshl", OpLShr: "bvlshr", OpAShr: "bvashr",
	OpULt: "bvult", OpULe: "bvule", OpSLt: "bvslt", OpSLe: "bvsle",
	OpFAdd: "fp.add RNE", OpFSub: "fp.sub RNE", OpFMul: "fp.mul RNE", OpFDiv: "fp.div RNE",
	OpFNeg: "fp.neg", OpFLt: "fp.lt", OpFLe: "fp.leq", OpFEq: "fp.eq", OpFIsNaN: "fp.isNaN",
}

type Term struct {
	id   int
	op   Op
	sort Sort
	args []*Term
	c    uint64 // constant bits (OpConst); for Bool 0/1
	name string // OpVar
	fp   bool   // contains floating point somewhere below
}

func (t *Term) IsConst() bool { return t.op == OpConst }

func (t *Term) String() string {
	switch t.op {
	case OpConst:
		if t.sort == SBool {
			if t.c != 0 {
				return "true"
			}
			return "false"
		}
		if t.sort == SFP64 {
			return fmt.Sprintf("%v", math.Float64frombits(t.c))
		}
		return strconv.FormatUint(t.c, 10)
	case OpVar:
		return t.name
	}
	var sb strings.Builder
	sb.WriteString("(")
	if s, ok := opSMT[t.op]; ok {
		sb.WriteString(s)
	} else {
		fmt.Fprintf(&sb, "op%d:%d", t.op, t.sort.Bits())
	}
	for _, a := range t.args {
		sb.WriteString(" ")
		if a.op != OpConst && a.op != OpVar && len(a.args) > 0 && depth(a) > 4 {
			fmt.Fprintf(&sb, "t%d", a.id)
		} else {
			sb.WriteString(a.String())
		}
	}
	sb.WriteString(")")
	return sb.String()
}

func depth(t *Term) int {
	d := 0
	for _, a := range t.args {
		if x := depth(a); x > d {
			d = x
		}
		if d > 5 {
			return d
		}
	}
	return d + 1
}

// TermStore hash-conses the terms of one run.
type TermStore struct {
	tab    map[string]*Term
	all    []*Term
	vars   []*Term
	hasFP  bool
	nextID int
}

func NewTermStore() *TermStore {
	return &TermStore{tab: make(map[string]*Term)}
}

func (ts *TermStore) mk(op Op, sort Sort, c uint64, name string, args ...*Term) *Term {
	var kb strings.Builder
	kb.WriteByte(byte(op))
	kb.WriteByte(byte(sort))
	if op == OpConst {
		kb.WriteString(strconv.FormatUint(c, 16))
	} else if op == OpVar {
		kb.WriteString(name)
	}
	for _, a := range args {
		kb.WriteByte(',')
		kb.WriteString(strconv.Itoa(a.id))
	}
	k := kb.String()
	if t, ok := ts.tab[k]; ok {
		return t
	}
	t := &Term{id: ts.nextID, op: op, sort: sort, c: c, name: name, args: args}
	ts.nextID++
	if sort == SFP64 {
		t.fp = true
	}
	for _, a := range args {
		if a.fp {
			t.fp = true
		}
	}
	if t.fp {
		ts.hasFP = true
	}
	ts.tab[k] = t
	ts.all = append(ts.all, t)
	if op == OpVar {
		ts.vars = append(ts.vars, t)
	}
	return t
}

func mask(bitsN uint) uint64 {
	if bitsN >= 64 {
		return ^uint64(0)
	}
	return (uint64(1) << bitsN) - 1
}

func signExt(v uint64, bitsN uint) int64 {
	sh := 64 - bitsN
	return int64(v<<sh) >> sh
}

func (ts *TermStore) Const(sort Sort, v uint64) *Term {
	if sort == SBool {
		if v != 0 {
			v = 1
		}
	} else if sort != SFP64 {
		v &= mask(sort.Bits())
	}
	return ts.mk(OpConst, sort, v, "")
}

func (ts *TermStore) Bool(b bool) *Term {
	if b {
		return ts.Const(SBool, 1)
	}
	return ts.Const(SBool, 0)
}

func (ts *TermStore) Var(sort Sort, name string) *Term {
	return ts.mk(OpVar, sort, 0, name)
}

func isTrue(t *Term) bool  { return t.op == OpConst && t.sort == SBool && t.c == 1 }
func isFalse(t *Term) bool { return t.op == OpConst && t.sort == SBool && t.c == 0 }

func (ts *TermStore) Not(a *Term) *Term {
	if a.op == OpConst {
		return ts.Bool(a.c == 0)
	}
	if a.op == OpNot {
		return a.args[0]
	}
	return ts.mk(OpNot, SBool, 0, "", a)
}

func (ts *TermStore) And(a, b *Term) *Term {
	if isFalse(a) || isFalse(b) {
		return ts.Bool(false)
	}
	if isTrue(a) {
		return b
	}
	if isTrue(b) {
		return a
	}
	if a == b {
		return a
	}
	return ts.mk(OpAnd, SBool, 0, "", a, b)
}

func (ts *TermStore) Or(a, b *Term) *Term {
	if isTrue(a) || isTrue(b) {
		return ts.Bool(true)
	}
	if isFalse(a) {
		return b
	}
	if isFalse(b) {
		return a
	}
	if a == b {
		return a
	}
	return ts.mk(OpOr, SBool, 0, "", a, b)
}

func (ts *TermStore) Eq(a, b *Term) *Term {
	if a == b && !a.fp {
		return ts.Bool(true)
	}
	if a.sort != b.sort {
		panic(fmt.Sprintf("Eq: sort mismatch %v %v", a.sort, b.sort))
	}
	if a.sort == SFP64 {
		return ts.FCmp(OpFEq, a, b)
	}
	if a.op == OpConst && b.op == OpConst {
		return ts.Bool(a.c == b.c)
	}
	if a.sort == SBool {
		if isTrue(a) {
			return b
		}
		if isTrue(b) {
			return a
		}
		if isFalse(a) {
			return ts.Not(b)
		}
		if isFalse(b) {
			return ts.Not(a)
		}
	}
	if a.id > b.id {
		a, b = b, a
	}
	return ts.mk(OpEq, SBool, 0, "", a, b)
}

func (ts *TermStore) Ite(c, a, b *Term) *Term {
	if isTrue(c) {
		return a
	}
	if isFalse(c) {
		return b
	}
	if a == b {
		return a
	}
	if a.sort == SBool {
		if isTrue(a) && isFalse(b) {
			return c
		}
		if isFalse(a) && isTrue(b) {
			return ts.Not(c)
		}
	}
	return ts.mk(OpIte, a.sort, 0, "", c, a, b)
}

// Bin builds a bit-vector binary operation with Go semantics.
func (ts *TermStore) Bin(op Op, a, b *Term) *Term {
	if a.sort != b.sort {
		panic(fmt.Sprintf("Bin %v: sort mismatch %v %v", op, a.sort, b.sort))
	}
	w := a.sort.Bits()
	m := mask(w)
	if a.op == OpConst && b.op == OpConst {
		x, y := a.c, b.c
		var r uint64
		ok := true
		switch op {
		case OpAdd:
			r = x + y
		case OpSub:
			r = x - y
		case OpMul:
			r = x * y
		case OpUDiv:
			if y == 0 {
				r = m // SMT-LIB semantics
			} else {
				r = x / y
			}
		case OpURem:
			if y == 0 {
				r = x
			} else {
				r = x % y
			}
		case OpSDiv:
			sx, sy := signExt(x, w), signExt(y, w)
			if sy == 0 {
				if sx >= 0 {
					r = m
				} else {
					r = 1
				}
			} else if sy == -1 {
				r = uint64(-sx)
			} else {
				r = uint64(sx / sy)
			}
		case OpSRem:
			sx, sy := signExt(x, w), signExt(y, w)
			if sy == 0 {
				r = x
			} else if sy == -1 {
				r = 0
			} else {
				r = uint64(sx % sy)
			}
		case OpBAnd:
			r = x & y
		case OpBOr:
			r = x | y
		case OpBXor:
			r = x ^ y
		case OpShl:
			if y >= uint64(w) {
				r = 0
			} else {
				r = x << y
			}
		case OpLShr:
			if y >= uint64(w) {
				r = 0
			} else {
				r = x >> y
			}
		case OpAShr:
			sx := signExt(x, w)
			if y >= uint64(w) {
				y = uint64(w) - 1
			}
			r = uint64(sx >> y)
		default:
			ok = false
		}
		if ok {
			return ts.Const(a.sort, r&m)
		}
	}
	// neutral / absorbing elements
	switch op {
	case OpAdd:
		if a.op == OpConst && a.c == 0 {
			return b
		}
		if b.op == OpConst && b.c == 0 {
			return a
		}
		if a.op == OpConst { // canonical: constant on the right
			a, b = b, a
		}
		// (x + c1) + c2
		if b.op == OpConst && a.op == OpAdd && a.args[1].op == OpConst {
			return ts.Bin(OpAdd, a.args[0], ts.Const(a.sort, a.args[1].c+b.c))
		}
	case OpSub:
		if b.op == OpConst && b.c == 0 {
			return a
		}
		if a == b {
			return ts.Const(a.sort, 0)
		}
		if b.op == OpConst {
			return ts.Bin(OpAdd, a, ts.Const(a.sort, -b.c))
		}
	case OpMul:
		if a.op == OpConst {
			a, b = b, a
		}
		if b.op == OpConst {
			if b.c == 0 {
				return b
			}
			if b.c == 1 {
				return a
			}
		}
	case OpBAnd:
		if a.op == OpConst {
			a, b = b, a
		}
		if b.op == OpConst {
			if b.c == 0 {
				return b
			}
			if b.c == m {
				return a
			}
		}
		if a == b {
			return a
		}
	case OpBOr:
		if a.op == OpConst {
			a, b = b, a
		}
		if b.op == OpConst {
			if b.c == 0 {
				return a
			}
			if b.c == m {
				return b
			}
		}
		if a == b {
			return a
		}
	case OpBXor:
		if a.op == OpConst {
			a, b = b, a
		}
		if b.op == OpConst && b.c == 0 {
			return a
		}
		if a == b {
			return ts.Const(a.sort, 0)
		}
	case OpShl, OpLShr, OpAShr:
		if b.op == OpConst && b.c == 0 {
			return a
		}
	case OpUDiv, OpSDiv:
		if b.op == OpConst && b.c == 1 {
			return a
		}
	}
	return ts.mk(op, a.sort, 0, "", a, b)
}

func (ts *TermStore) Cmp(op Op, a, b *Term) *Term {
	if a.sort != b.sort {
		panic(fmt.Sprintf("Cmp %v: sort mismatch %v %v", op, a.sort, b.sort))
	}
	w := a.sort.Bits()
	if a.op == OpConst && b.op == OpConst {
		switch op {
		case OpULt:
			return ts.Bool(a.c < b.c)
		case OpULe:
			return ts.Bool(a.c <= b.c)
		case OpSLt:
			return ts.Bool(signExt(a.c, w) < signExt(b.c, w))
		case OpSLe:
			return ts.Bool(signExt(a.c, w) <= signExt(b.c, w))
		}
	}
	if a == b {
		return ts.Bool(op == OpULe || op == OpSLe)
	}
	switch op {
	case OpULt:
		if b.op == OpConst && b.c == 0 {
			return ts.Bool(false)
		}
		if a.op == OpConst && a.c == mask(w) {
			return ts.Bool(false)
		}
	case OpULe:
		if a.op == OpConst && a.c == 0 {
			return ts.Bool(true)
		}
		if b.op == OpConst && b.c == mask(w) {
			return ts.Bool(true)
		}
	}
	return ts.mk(op, SBool, 0, "", a, b)
}

func (ts *TermStore) Un(op Op, a *Term) *Term {
	w := a.sort.Bits()
	if a.op == OpConst {
		switch op {
		case OpBNot:
			return ts.Const(a.sort, ^a.c&mask(w))
		case OpNeg:
			return ts.Const(a.sort, (-a.c)&mask(w))
		}
	}
	if a.op == op { // double negation
		return a.args[0]
	}
	return ts.mk(op, a.sort, 0, "", a)
}

// Resize converts bit-vector a to sort to; signed selects sign extension.
func (ts *TermStore) Resize(a *Term, to Sort, signed bool) *Term {
	fw, tw := a.sort.Bits(), to.Bits()
	if fw == tw {
		return a
	}
	if a.op == OpConst {
		if tw < fw {
			return ts.Const(to, a.c&mask(tw))
		}
		if signed {
			return ts.Const(to, uint64(signExt(a.c, fw))&mask(tw))
		}
		return ts.Const(to, a.c)
	}
	if tw < fw {
		// trunc(ext(x)) simplifications
		if (a.op == OpZExt || a.op == OpSExt) && a.args[0].sort == to {
			return a.args[0]
		}
		if (a.op == OpZExt || a.op == OpSExt) && a.args[0].sort.Bits() > tw {
			return ts.Resize(a.args[0], to, false)
		}
		return ts.mk(OpTrunc, to, 0, "", a)
	}
	if signed {
		return ts.mk(OpSExt, to, 0, "", a)
	}
	if a.op == OpZExt {
		return ts.mk(OpZExt, to, 0, "", a.args[0])
	}
	return ts.mk(OpZExt, to, 0, "", a)
}

// ---- floating point ----

func (ts *TermStore) FConst(f float64) *Term { return ts.Const(SFP64, math.Float64bits(f)) }

func (ts *TermStore) FBin(op Op, a, b *Term) *Term {
	if a.op == OpConst && b.op == OpConst {
		x, y := math.Float64frombits(a.c), math.Float64frombits(b.c)
		switch op {
		case OpFAdd:
			return ts.FConst(x + y)
		case OpFSub:
			return ts.FConst(x - y)
		case OpFMul:
			return ts.FConst(x * y)
		case OpFDiv:
			return ts.FConst(x / y)
		}
	}
	return ts.mk(op, SFP64, 0, "", a, b)
}

func (ts *TermStore) FCmp(op Op, a, b *Term) *Term {
	if a.op == OpConst && b.op == OpConst {
		x, y := math.Float64frombits(a.c), math.Float64frombits(b.c)
		switch op {
		case OpFLt:
			return ts.Bool(x < y)
		case OpFLe:
			return ts.Bool(x <= y)
		case OpFEq:
			return ts.Bool(x == y)
		}
	}
	return ts.mk(op, SBool, 0, "", a, b)
}

func (ts *TermStore) FNeg(a *Term) *Term {
	if a.op == OpConst {
		return ts.FConst(-math.Float64frombits(a.c))
	}
	return ts.mk(OpFNeg, SFP64, 0, "", a)
}

func (ts *TermStore) IntToF(a *Term, signed bool) *Term {
	if a.op == OpConst {
		if signed {
			return ts.FConst(float64(signExt(a.c, a.sort.Bits())))
		}
		return ts.FConst(float64(a.c))
	}
	if signed {
		return ts.mk(OpSToF, SFP64, 0, "", a)
	}
	return ts.mk(OpUToF, SFP64, 0, "", a)
}

func (ts *TermStore) FToInt(a *Term, to Sort, signed bool) *Term {
	if a.op == OpConst {
		f := math.Float64frombits(a.c)
		if signed {
			return ts.Const(to, uint64(int64(f)))
		}
		return ts.Const(to, uint64(f))
	}
	if signed {
		return ts.mk(OpFToS, to, 0, "", a)
	}
	return ts.mk(OpFToU, to, 0, "", a)
}

// ---- SMT-LIB output ----

func smtConst(t *Term) string {
	switch t.sort {
	case SBool:
		if t.c != 0 {
			return "true"
		}
		return "false"
	case SFP64:
		return fmt.Sprintf("((_ to_fp 11 53) #x%016x)", t.c)
	}
	w := t.sort.Bits()
	return fmt.Sprintf("#x%0*x", int(w/4), t.c)
}

// ref is how a term is referred to inside other terms.
func smtRef(t *Term) string {
	switch t.op {
	case OpConst:
		return smtConst(t)
	case OpVar:
		return t.name
	}
	return "t" + strconv.Itoa(t.id)
}

// smtBody prints the defining expression of a non-leaf term.
func smtBody(t *Term) string {
	var sb strings.Builder
	switch t.op {
	case OpZExt:
		fmt.Fprintf(&sb, "((_ zero_extend %d) %s)", t.sort.Bits()-t.args[0].sort.Bits(), smtRef(t.args[0]))
		return sb.String()
	case OpSExt:
		fmt.Fprintf(&sb, "((_ sign_extend %d) %s)", t.sort.Bits()-t.args[0].sort.Bits(), smtRef(t.args[0]))
		return sb.String()
	case OpTrunc:
		fmt.Fprintf(&sb, "((_ extract %d 0) %s)", t.sort.Bits()-1, smtRef(t.args[0]))
		return sb.String()
	case OpSToF:
		fmt.Fprintf(&sb, "((_ to_fp 11 53) RNE %s)", smtRef(t.args[0]))
		return sb.String()
	case OpUToF:
		fmt.Fprintf(&sb, "((_ to_fp_unsigned 11 53) RNE %s)", smtRef(t.args[0]))
		return sb.String()
	case OpFToS:
		fmt.Fprintf(&sb, "((_ fp.to_sbv %d) RTZ %s)", t.sort.Bits(), smtRef(t.args[0]))
		return sb.String()
	case OpFToU:
		fmt.Fprintf(&sb, "((_ fp.to_ubv %d) RTZ %s)", t.sort.Bits(), smtRef(t.args[0]))
		return sb.String()
	}
	sb.WriteByte('(')
	sb.WriteString(opSMT[t.op])
	for _, a := range t.args {
		sb.WriteByte(' ')
		sb.WriteString(smtRef(a))
	}
	sb.WriteByte(')')
	return sb.String()
}

// evalTerm evaluates t under a model (variable name -> bits). Used to compute
// expected observations for replays.
var _ = 0

func evalTerm(t *Term, model map[string]uint64, memo map[int]uint64) uint64 {
	return evalTermS(NewTermStore(), t, model, memo)
}

// evalTermS evaluates with a caller-provided scratch store for constant folding.
func evalTermS(ts *TermStore, t *Term, model map[string]uint64, memo map[int]uint64) uint64 {
	if v, ok := memo[t.id]; ok {
		return v
	}
	var r uint64
	switch t.op {
	case OpConst:
		r = t.c
	case OpVar:
		r = model[t.name]
		if t.sort != SFP64 && t.sort != SBool {
			r &= mask(t.sort.Bits())
		}
	default:
		av := make([]uint64, len(t.args))
		for i, a := range t.args {
			av[i] = evalTermS(ts, a, model, memo)
		}
		b2u := func(b bool) uint64 {
			if b {
				return 1
			}
			return 0
		}
		var w uint
		if len(t.args) > 0 {
			w = t.args[0].sort.Bits()
		}
		m := mask(w)
		cst := func(i int) *Term { return ts.Const(t.args[i].sort, av[i]) }
		switch t.op {
		case OpNot:
			r = b2u(av[0] == 0)
		case OpAnd:
			r = b2u(av[0] != 0 && av[1] != 0)
		case OpOr:
			r = b2u(av[0] != 0 || av[1] != 0)
		case OpEq:
			r = b2u(av[0] == av[1])
		case OpIte:
			if av[0] != 0 {
				r = av[1]
			} else {
				r = av[2]
			}
		case OpAdd, OpSub, OpMul, OpUDiv, OpURem, OpSDiv, OpSRem, OpBAnd, OpBOr, OpBXor, OpShl, OpLShr, OpAShr:
			r = ts.Bin(t.op, cst(0), cst(1)).c
		case OpULt, OpULe, OpSLt, OpSLe:
			r = ts.Cmp(t.op, cst(0), cst(1)).c
		case OpBNot:
			r = ^av[0] & m
		case OpNeg:
			r = (-av[0]) & m
		case OpZExt:
			r = av[0]
		case OpSExt:
			r = uint64(signExt(av[0], w)) & mask(t.sort.Bits())
		case OpTrunc:
			r = av[0] & mask(t.sort.Bits())
		case OpFAdd, OpFSub, OpFMul, OpFDiv:
			r = ts.FBin(t.op, cst(0), cst(1)).c
		case OpFLt, OpFLe, OpFEq:
			r = ts.FCmp(t.op, cst(0), cst(1)).c
		case OpFNeg:
			r = ts.FNeg(cst(0)).c
		case OpSToF:
			r = ts.IntToF(cst(0), true).c
		case OpUToF:
			r = ts.IntToF(cst(0), false).c
		case OpFToS:
			r = ts.FToInt(cst(0), t.sort, true).c
		case OpFToU:
			r = ts.FToInt(cst(0), t.sort, false).c
		case OpFIsNaN:
			f := math.Float64frombits(av[0])
			r = b2u(f != f)
		default:
			panic(fmt.Sprintf("evalTerm: op %d", t.op))
		}
	}
	memo[t.id] = r
	return r
}

var _ = bits.Len64
