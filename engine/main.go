package main

import (
	"encoding/json"
	"flag"
	"fmt"
	"os"
	"sort"
	"strconv"
	"strings"
	"time"
)

func main() {
	if len(os.Args) < 2 {
		fmt.Fprintln(os.Stderr, "usage: gosym run|check ...")
		os.Exit(2)
	}
	switch os.Args[1] {
	case "run":
		os.Exit(cmdRun(os.Args[2:]))
	case "check":
		os.Exit(cmdCheck(os.Args[2:]))
	case "replay":
		os.Exit(cmdReplay(os.Args[2:]))
	default:
		fmt.Fprintln(os.Stderr, "unknown command", os.Args[1])
		os.Exit(2)
	}
}

func cmdRun(args []string) int {
	fs := flag.NewFlagSet("run", flag.ExitOnError)
	repo := fs.String("repo", "/repo", "repository")
	overlay := fs.String("overlay", "", "overlay directory (mirrors repo layout)")
	pkg := fs.String("pkg", "./ring", "package pattern")
	harness := fs.String("harness", "", "comma-separated harness function names")
	tier := fs.Int("tier", 0, "0 quick, 1 thorough")
	workers := fs.Int("workers", 0, "workers")
	maxPaths := fs.Int("maxpaths", 0, "path limit")
	out := fs.String("out", "", "write JSON result")
	paramS := fs.String("params", "", "k=v,k=v harness parameters")
	sinkS := fs.String("sinks", "", "comma-separated target functions treated as sinks")
	preempt := fs.Int("preempt", 0, "preemption budget at atomic operations")
	preemptLocks := fs.Bool("preempt-locks", false, "preemption points also before mutex acquisitions")
	fs.Parse(args)
	eng, err := LoadEngine(*repo, *overlay, []string{*pkg})
	if err != nil {
		fmt.Fprintln(os.Stderr, "load:", err)
		return 2
	}
	fmt.Fprintf(os.Stderr, "loaded in %v\n", eng.loadTime)
	for _, f := range strings.Split(*sinkS, ",") {
		if f != "" {
			eng.sinkFuncs[f] = true
		}
	}
	params := map[string]int64{}
	for _, kv := range strings.Split(*paramS, ",") {
		if k, v, ok := strings.Cut(kv, "="); ok {
			n, _ := strconv.ParseInt(v, 10, 64)
			params[k] = n
		}
	}
	rc := 0
	var results []*HarnessResult
	for _, h := range strings.Split(*harness, ",") {
		fn := eng.findHarness(h)
		if fn == nil {
			fmt.Fprintln(os.Stderr, "no such harness:", h)
			return 2
		}
		res := eng.Explore(fn, ExploreOpts{Workers: *workers, MaxPaths: *maxPaths, MaxViolations: 3, Tier: *tier, SampleEvery: 50, MaxSamples: 10, Params: params, Preempt: *preempt, PreemptLocks: *preemptLocks})
		results = append(results, res)
		fmt.Printf("%s: paths=%d completed=%d vacuous=%d inconclusive=%d violations=%d decisions=%d forced=%d instrs=%d queries=%d (sat %d unsat %d unknown %d) solver=%v wall=%v\n",
			res.Harness, res.Paths, res.Completed, res.Vacuous, res.Inconclusive, len(res.Violations), res.Decisions, res.Forced, res.Instrs,
			res.Solver.Queries, res.Solver.Sat, res.Solver.Unsat, res.Solver.Unknown, res.Solver.Time.Round(time.Millisecond), res.Wall.Round(time.Millisecond))
		if len(res.ForkSites) > 0 {
			type kv struct {
				k string
				v int
			}
			var l []kv
			for k, v := range res.ForkSites {
				l = append(l, kv{k, v})
			}
			sort.Slice(l, func(i, j int) bool { return l[i].v > l[j].v })
			for i, e := range l {
				if i >= 12 {
					break
				}
				fmt.Printf("  FORKS %6d %s\n", e.v, e.k)
			}
		}
		for _, m := range res.InconclMsgs {
			fmt.Println("  INCONCLUSIVE:", m)
		}
		for _, v := range res.Violations {
			b, _ := json.Marshal(v)
			fmt.Println("  VIOLATION:", string(b))
		}
		for _, c := range res.WantCovers {
			if res.Covers[c] == 0 {
				fmt.Println("  MISSING COVER:", c)
			}
		}
		if len(res.Violations) > 0 {
			rc = 1
		} else if res.Inconclusive > 0 && rc == 0 {
			rc = 2
		}
	}
	for _, f := range eng.initFailureList() {
		fmt.Println("  init failure:", f)
	}
	if *out != "" {
		b, _ := json.MarshalIndent(results, "", " ")
		os.WriteFile(*out, b, 0o644)
	}
	return rc
}

