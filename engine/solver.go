package main

// SMT solver sessions. One long-lived `z3 -in` per worker, push/pop per run and
// per query. `unknown` falls back to a one-shot z3-new, then cvc5, fed with the
// complete script of the run. Queries over floating point go to cvc5 first.
// Any "(error" line makes the answer inconclusive.

import (
	"bufio"
	"fmt"
	"io"
	"os"
	"os/exec"
	"strconv"
	"strings"
	"time"
)

type Verdict int

const (
	Unsat Verdict = iota
	Sat
	Unknown
)

func (v Verdict) String() string { return [...]string{"unsat", "sat", "unknown"}[v] }

type SolverStats struct {
	Queries   int
	Sat       int
	Unsat     int
	Unknown   int
	Fallbacks int
	Errors    int
	Time      time.Duration
	MaxQuery  time.Duration
}

func (a *SolverStats) Add(b SolverStats) {
	a.Queries += b.Queries
	a.Sat += b.Sat
	a.Unsat += b.Unsat
	a.Unknown += b.Unknown
	a.Fallbacks += b.Fallbacks
	a.Errors += b.Errors
	a.Time += b.Time
	if b.MaxQuery > a.MaxQuery {
		a.MaxQuery = b.MaxQuery
	}
}

type Solver struct {
	cmd       *exec.Cmd
	in        io.WriteCloser
	out       *bufio.Reader
	script    []string // run-level commands of the current run (for fallbacks and dumps)
	defined   map[int]bool
	declared  map[string]bool
	inRun     bool
	timeoutMs int
	Stats     SolverStats
	dumpDir   string // when set, assertion queries are dumped here
	dumpN     int
	lastErr   string
}

var solverTimeoutMs = 20000

func NewSolver() (*Solver, error) {
	s := &Solver{timeoutMs: solverTimeoutMs}
	if err := s.start(); err != nil {
		return nil, err
	}
	return s, nil
}

func (s *Solver) start() error {
	s.cmd = exec.Command("z3", "-in", "-t:"+strconv.Itoa(s.timeoutMs))
	in, err := s.cmd.StdinPipe()
	if err != nil {
		return err
	}
	out, err := s.cmd.StdoutPipe()
	if err != nil {
		return err
	}
	s.cmd.Stderr = os.Stderr
	if err := s.cmd.Start(); err != nil {
		return err
	}
	s.in = in
	s.out = bufio.NewReaderSize(out, 1<<16)
	return nil
}

func (s *Solver) Close() {
	if s.cmd != nil {
		s.in.Close()
		s.cmd.Process.Kill()
		s.cmd.Wait()
		s.cmd = nil
	}
}

func (s *Solver) send(cmd string) {
	io.WriteString(s.in, cmd)
	io.WriteString(s.in, "\n")
}

func (s *Solver) BeginRun() {
	if s.inRun {
		s.EndRun()
	}
	s.send("(push 1)")
	s.script = s.script[:0]
	s.defined = make(map[int]bool)
	s.declared = make(map[string]bool)
	s.inRun = true
}

func (s *Solver) EndRun() {
	if s.inRun {
		s.send("(pop 1)")
		s.inRun = false
	}
}

func (s *Solver) runCmd(c string) {
	s.script = append(s.script, c)
	s.send(c)
}

// ensure emits declarations/definitions for t at run level.
func (s *Solver) ensure(t *Term) {
	switch t.op {
	case OpConst:
		return
	case OpVar:
		if !s.declared[t.name] {
			s.declared[t.name] = true
			s.runCmd(fmt.Sprintf("(declare-const %s %s)", t.name, t.sort.SMT()))
		}
		return
	}
	if s.defined[t.id] {
		return
	}
	// iterative post-order to survive deep chains
	type item struct {
		t    *Term
		next int
	}
	stack := []item{{t, 0}}
	for len(stack) > 0 {
		top := &stack[len(stack)-1]
		if top.next < len(top.t.args) {
			a := top.t.args[top.next]
			top.next++
			switch a.op {
			case OpConst:
			case OpVar:
				s.ensure(a)
			default:
				if !s.defined[a.id] {
					stack = append(stack, item{a, 0})
				}
			}
			continue
		}
		x := top.t
		stack = stack[:len(stack)-1]
		if !s.defined[x.id] {
			s.defined[x.id] = true
			s.runCmd(fmt.Sprintf("(define-fun t%d () %s %s)", x.id, x.sort.SMT(), smtBody(x)))
		}
	}
}

// Assert adds t to the path condition of the current run.
func (s *Solver) Assert(t *Term) {
	s.ensure(t)
	s.runCmd("(assert " + smtRef(t) + ")")
}

func (s *Solver) readLine() (string, error) {
	line, err := s.out.ReadString('\n')
	return strings.TrimSpace(line), err
}

// readVerdict reads until a sat/unsat/unknown line; error lines are recorded.
func (s *Solver) readVerdict() (Verdict, bool) {
	sawErr := false
	for {
		line, err := s.readLine()
		if err != nil {
			s.lastErr = "solver died: " + err.Error()
			return Unknown, true
		}
		switch {
		case line == "sat":
			return Sat, sawErr
		case line == "unsat":
			return Unsat, sawErr
		case line == "unknown" || line == "timeout":
			return Unknown, sawErr
		case strings.HasPrefix(line, "(error"):
			sawErr = true
			s.lastErr = line
		case line == "":
		default:
			// unexpected chatter: treat as error
			sawErr = true
			s.lastErr = "unexpected solver output: " + line
		}
	}
}

func (s *Solver) readSexp() string {
	var sb strings.Builder
	depth := 0
	started := false
	for {
		line, err := s.readLine()
		if err != nil {
			return sb.String()
		}
		sb.WriteString(line)
		sb.WriteByte(' ')
		for _, ch := range line {
			if ch == '(' {
				depth++
				started = true
			} else if ch == ')' {
				depth--
			}
		}
		if started && depth <= 0 {
			return sb.String()
		}
	}
}

// Check decides satisfiability of (path condition ∧ extra). extra may be nil.
// If wantModel and the result is sat, values for vars are returned.
func (s *Solver) Check(ts *TermStore, extra *Term, wantModel bool, vars []*Term) (Verdict, map[string]uint64) {
	t0 := time.Now()
	defer func() {
		d := time.Since(t0)
		s.Stats.Time += d
		if d > s.Stats.MaxQuery {
			s.Stats.MaxQuery = d
		}
	}()
	s.Stats.Queries++
	if extra != nil {
		s.ensure(extra)
	}
	for _, v := range vars {
		s.ensure(v)
	}
	var v Verdict
	var model map[string]uint64
	sawErr := false
	if ts.hasFP {
		v, model, sawErr = s.oneShot("cvc5", extra, wantModel, vars)
	} else {
		s.send("(push 1)")
		if extra != nil {
			s.send("(assert " + smtRef(extra) + ")")
		}
		s.send("(check-sat)")
		v, sawErr = s.readVerdict()
		if v == Sat && wantModel && !sawErr && len(vars) > 0 {
			model = s.getValues(vars)
		}
		s.send("(pop 1)")
	}
	if sawErr {
		s.Stats.Errors++
		v = Unknown
	}
	if v == Unknown {
		// fallbacks with the complete script
		for _, k := range []string{"z3-new", "cvc5", "z3"} {
			if ts.hasFP && k == "cvc5" {
				continue
			}
			s.Stats.Fallbacks++
			fv, fm, ferr := s.oneShot(k, extra, wantModel, vars)
			if !ferr && fv != Unknown {
				v, model = fv, fm
				break
			}
		}
	}
	switch v {
	case Sat:
		s.Stats.Sat++
	case Unsat:
		s.Stats.Unsat++
	default:
		s.Stats.Unknown++
	}
	return v, model
}

func (s *Solver) getValues(vars []*Term) map[string]uint64 {
	var sb strings.Builder
	sb.WriteString("(get-value (")
	for _, v := range vars {
		sb.WriteString(v.name)
		sb.WriteByte(' ')
	}
	sb.WriteString("))")
	s.send(sb.String())
	return parseModel(s.readSexp())
}

// parseModel parses "((a #x01) (b true) (c #b0101))".
func parseModel(txt string) map[string]uint64 {
	m := make(map[string]uint64)
	toks := strings.Fields(strings.NewReplacer("(", " ( ", ")", " ) ").Replace(txt))
	for i := 0; i+2 < len(toks); i++ {
		if toks[i] == "(" && toks[i+1] != "(" && toks[i+1] != ")" {
			name, val := toks[i+1], toks[i+2]
			switch {
			case val == "true":
				m[name] = 1
			case val == "false":
				m[name] = 0
			case strings.HasPrefix(val, "#x"):
				u, _ := strconv.ParseUint(val[2:], 16, 64)
				m[name] = u
			case strings.HasPrefix(val, "#b"):
				u, _ := strconv.ParseUint(val[2:], 2, 64)
				m[name] = u
			case val == "(" && i+5 < len(toks) && toks[i+3] == "_" && strings.HasPrefix(toks[i+4], "bv"):
				u, _ := strconv.ParseUint(toks[i+4][2:], 10, 64)
				m[name] = u
			}
		}
	}
	return m
}

// Script returns the full SMT-LIB text of the current run plus one query.
func (s *Solver) Script(extra *Term, wantModel bool, vars []*Term) string {
	var sb strings.Builder
	for _, c := range s.script {
		sb.WriteString(c)
		sb.WriteByte('\n')
	}
	if extra != nil {
		sb.WriteString("(assert " + smtRef(extra) + ")\n")
	}
	sb.WriteString("(check-sat)\n")
	if wantModel && len(vars) > 0 {
		sb.WriteString("(get-value (")
		for _, v := range vars {
			sb.WriteString(v.name + " ")
		}
		sb.WriteString("))\n")
	}
	return sb.String()
}

func (s *Solver) oneShot(kind string, extra *Term, wantModel bool, vars []*Term) (Verdict, map[string]uint64, bool) {
	script := s.Script(extra, wantModel, vars)
	var cmd *exec.Cmd
	switch kind {
	case "z3":
		cmd = exec.Command("z3", "-in", "-t:"+strconv.Itoa(s.timeoutMs*3))
	case "z3-new":
		cmd = exec.Command("z3-new", "-in", "-t:"+strconv.Itoa(s.timeoutMs*3))
	case "cvc5":
		cmd = exec.Command("cvc5", "--lang=smt2", "--produce-models", "--tlimit-per="+strconv.Itoa(s.timeoutMs*3))
		script = "(set-logic ALL)\n" + script
	}
	cmd.Stdin = strings.NewReader(script)
	outB, _ := cmd.Output()
	out := string(outB)
	lines := strings.Split(out, "\n")
	v := Unknown
	sawErr := false
	rest := ""
	for i, l := range lines {
		l = strings.TrimSpace(l)
		switch {
		case l == "sat":
			v = Sat
			rest = strings.Join(lines[i+1:], " ")
		case l == "unsat":
			v = Unsat
		case strings.HasPrefix(l, "(error"):
			// a get-value after unsat errors out; only errors before the verdict count
			if v == Unknown {
				sawErr = true
				s.lastErr = kind + ": " + l
			}
		}
		if v != Unknown {
			break
		}
	}
	var model map[string]uint64
	if v == Sat && wantModel {
		model = parseModel(rest)
	}
	return v, model, sawErr
}

// CrossCheck re-decides a query with a second solver; returns the verdict.
func (s *Solver) CrossCheck(ts *TermStore, extra *Term) Verdict {
	kind := "cvc5"
	if ts.hasFP {
		kind = "z3-new"
	}
	v, _, e := s.oneShot(kind, extra, false, nil)
	if e {
		return Unknown
	}
	return v
}
