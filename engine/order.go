package main

// A small decision procedure used before the SMT solver: the order facts
// (a<b, a<=b, a=b, a!=b over opaque bit-vector terms and constants) that have
// been asserted into the path condition form a graph; a comparison that is
// implied by reachability in this graph is decided without a solver query.
// Sound (only facts implied by the path condition are used), incomplete (the
// solver decides everything else).

type ordEdge struct {
	to     *Term
	strict bool
}

type orderGraph struct {
	signed bool
	adj    map[*Term][]ordEdge
	consts []*Term
	ne     map[[2]int]bool
}

func newOrderGraph(signed bool) *orderGraph {
	return &orderGraph{signed: signed, adj: make(map[*Term][]ordEdge), ne: make(map[[2]int]bool)}
}

func (g *orderGraph) node(t *Term) {
	if _, ok := g.adj[t]; !ok {
		g.adj[t] = nil
		if t.op == OpConst {
			g.consts = append(g.consts, t)
		}
	}
}

func (g *orderGraph) add(a, b *Term, strict bool) {
	g.node(a)
	g.node(b)
	g.adj[a] = append(g.adj[a], ordEdge{b, strict})
}

func (g *orderGraph) constLess(a, b *Term) (le, lt bool) {
	if g.signed {
		x, y := signExt(a.c, a.sort.Bits()), signExt(b.c, b.sort.Bits())
		return x <= y, x < y
	}
	return a.c <= b.c, a.c < b.c
}

// reach reports whether a <= b is implied and whether a < b is implied.
func (g *orderGraph) reach(a, b *Term) (le, lt bool) {
	if a == b {
		le = true
	}
	if a.op == OpConst && b.op == OpConst {
		return g.constLess(a, b)
	}
	type state struct {
		t      *Term
		strict bool
	}
	seen := map[state]bool{}
	stack := []state{{a, false}}
	for len(stack) > 0 {
		s := stack[len(stack)-1]
		stack = stack[:len(stack)-1]
		if seen[s] {
			continue
		}
		seen[s] = true
		if s.t == b {
			le = true
			if s.strict {
				return true, true
			}
		}
		if s.t.op == OpConst && b.op == OpConst && s.t.sort == b.sort {
			l, t := g.constLess(s.t, b)
			if l {
				le = true
				if t || s.strict {
					return true, true
				}
			}
		}
		for _, e := range g.adj[s.t] {
			stack = append(stack, state{e.to, s.strict || e.strict})
		}
		if s.t.op == OpConst {
			// implicit edges to larger constants in the graph
			for _, c := range g.consts {
				if c != s.t && c.sort == s.t.sort {
					if l, t := g.constLess(s.t, c); l {
						stack = append(stack, state{c, s.strict || t})
					}
				}
			}
		}
	}
	return le, lt
}

func neKey(a, b *Term) [2]int {
	if a.id > b.id {
		a, b = b, a
	}
	return [2]int{a.id, b.id}
}

type orderFacts struct {
	u, s *orderGraph
	hits int
}

func newOrderFacts() *orderFacts {
	return &orderFacts{u: newOrderGraph(false), s: newOrderGraph(true)}
}

func isBV(t *Term) bool { return t.sort != SBool && t.sort != SFP64 }

// learn records the order facts contained in an asserted conjunct.
func (o *orderFacts) learn(t *Term) {
	switch t.op {
	case OpAnd:
		o.learn(t.args[0])
		o.learn(t.args[1])
	case OpULt:
		o.u.add(t.args[0], t.args[1], true)
	case OpULe:
		o.u.add(t.args[0], t.args[1], false)
	case OpSLt:
		o.s.add(t.args[0], t.args[1], true)
	case OpSLe:
		o.s.add(t.args[0], t.args[1], false)
	case OpEq:
		if isBV(t.args[0]) {
			for _, g := range []*orderGraph{o.u, o.s} {
				g.add(t.args[0], t.args[1], false)
				g.add(t.args[1], t.args[0], false)
			}
		}
	case OpNot:
		x := t.args[0]
		switch x.op {
		case OpOr: // not(a or b) = not a and not b
			o.learnNot(x.args[0])
			o.learnNot(x.args[1])
		default:
			o.learnNot(x)
		}
	}
}

func (o *orderFacts) learnNot(x *Term) {
	switch x.op {
	case OpULt: // not(a<b) = b<=a
		o.u.add(x.args[1], x.args[0], false)
	case OpULe:
		o.u.add(x.args[1], x.args[0], true)
	case OpSLt:
		o.s.add(x.args[1], x.args[0], false)
	case OpSLe:
		o.s.add(x.args[1], x.args[0], true)
	case OpEq:
		if isBV(x.args[0]) {
			o.u.ne[neKey(x.args[0], x.args[1])] = true
		}
	case OpNot:
		o.learn(x.args[0])
	case OpOr:
		o.learnNot(x.args[0])
		o.learnNot(x.args[1])
	}
}

// decide returns +1 if t is implied, -1 if its negation is implied, 0 otherwise.
func (o *orderFacts) decide(t *Term) int {
	switch t.op {
	case OpNot:
		return -o.decide(t.args[0])
	case OpULt, OpULe, OpSLt, OpSLe:
		g := o.u
		if t.op == OpSLt || t.op == OpSLe {
			g = o.s
		}
		a, b := t.args[0], t.args[1]
		le, lt := g.reach(a, b)
		strict := t.op == OpULt || t.op == OpSLt
		if strict && lt || !strict && le {
			return 1
		}
		rle, rlt := g.reach(b, a)
		if strict && rle || !strict && rlt {
			return -1
		}
	case OpEq:
		a, b := t.args[0], t.args[1]
		if !isBV(a) {
			return 0
		}
		if o.u.ne[neKey(a, b)] {
			return -1
		}
		for _, g := range []*orderGraph{o.u, o.s} {
			le, lt := g.reach(a, b)
			rle, rlt := g.reach(b, a)
			if lt || rlt {
				return -1
			}
			if le && rle {
				return 1
			}
		}
	case OpAnd:
		x, y := o.decide(t.args[0]), o.decide(t.args[1])
		if x == 1 && y == 1 {
			return 1
		}
		if x == -1 || y == -1 {
			return -1
		}
	case OpOr:
		x, y := o.decide(t.args[0]), o.decide(t.args[1])
		if x == 1 || y == 1 {
			return 1
		}
		if x == -1 && y == -1 {
			return -1
		}
	}
	return 0
}
