package main

// Exploration of all paths of a harness: a shared work stack of decision
// prefixes, N workers each with its own solver and interpreter state.

import (
	"fmt"
	"go/token"
	"os"
	"runtime"
	"sort"
	"sync"
	"time"

	"golang.org/x/tools/go/ssa"
)

type HarnessResult struct {
	Harness      string
	Paths        int
	Completed    int
	Nontrivial   int
	Vacuous      int
	Inconclusive int
	Violations   []*Violation
	InconclMsgs  []string
	Decisions    int
	Forced       int
	Instrs       int
	Assertions   int
	AssertQ      int
	CrossChecked int
	Covers       map[string]int
	ForkSites    map[string]int
	WantCovers   []string
	Funcs        map[string]int
	Stubs        map[string]int
	Solver       SolverStats
	Samples      []*PathSample
	SampleVecs   []*Violation // path-end models for translator validation
	Wall         time.Duration
	MaxTrail     int
	Stopped      string
}

type ExploreOpts struct {
	Workers       int
	MaxPaths      int
	MaxViolations int
	InstrLimit    int
	Tier          int
	Seed          int64
	Params        map[string]int64
	SampleEvery   int // take a path-end model every N completed paths
	MaxSamples    int
	Deadline      time.Time
	Preempt       int
	PreemptLocks  bool
}

type workItem struct {
	prefix []uint64
}

func (e *Engine) Explore(fn *ssa.Function, opts ExploreOpts) *HarnessResult {
	e.crossSeen.Store(0)
	t0 := time.Now()
	res := &HarnessResult{Harness: fn.Name(), Covers: map[string]int{}, Funcs: map[string]int{}, Stubs: map[string]int{}}
	res.WantCovers = staticCovers(fn)
	var mu sync.Mutex
	cond := sync.NewCond(&mu)
	stack := []workItem{{nil}}
	active := 0
	stop := false
	if opts.Workers <= 0 {
		opts.Workers = runtime.NumCPU()
	}
	var wg sync.WaitGroup
	if os.Getenv("GOSYM_DEBUG") != "" {
		doneCh := make(chan struct{})
		defer close(doneCh)
		go func() {
			tk := time.NewTicker(15 * time.Second)
			defer tk.Stop()
			for {
				select {
				case <-doneCh:
					return
				case <-tk.C:
					mu.Lock()
					fmt.Fprintf(os.Stderr, "[progress %s] paths=%d completed=%d violations=%d inconclusive=%d queue=%d elapsed=%v\n",
						res.Harness, res.Paths, res.Completed, len(res.Violations), res.Inconclusive, len(stack), time.Since(t0).Round(time.Second))
					mu.Unlock()
				}
			}
		}()
	}
	for w := 0; w < opts.Workers; w++ {
		wg.Add(1)
		go func(wid int) {
			defer wg.Done()
			solver, err := NewSolver()
			if err != nil {
				mu.Lock()
				res.Inconclusive++
				res.InconclMsgs = append(res.InconclMsgs, "cannot start solver: "+err.Error())
				stop = true
				cond.Broadcast()
				mu.Unlock()
				return
			}
			defer solver.Close()
			for {
				mu.Lock()
				for len(stack) == 0 && active > 0 && !stop {
					cond.Wait()
				}
				if stop || (len(stack) == 0 && active == 0) {
					cond.Broadcast()
					mu.Unlock()
					break
				}
				item := stack[len(stack)-1]
				stack = stack[:len(stack)-1]
				active++
				npaths := res.Paths
				wantSample := opts.SampleEvery > 0 && len(res.SampleVecs) < opts.MaxSamples && npaths%opts.SampleEvery == 0
				mu.Unlock()

				pr := e.runPath(fn, solver, item.prefix, opts, wantSample)

				mu.Lock()
				active--
				res.Paths++
				res.Instrs += pr.Instrs
				res.Decisions += pr.Decisions
				if pr.Forks > 0 {
					res.Nontrivial++
				}
				res.Forced += pr.Forced
				res.Assertions += pr.assertions
				res.AssertQ += pr.assertQ
				res.CrossChecked += pr.crossChecked
				if len(pr.Trail) > res.MaxTrail {
					res.MaxTrail = len(pr.Trail)
				}
				for c := range pr.Covers {
					res.Covers[c]++
				}
				for k, v := range pr.ForkSites {
					if res.ForkSites == nil {
						res.ForkSites = map[string]int{}
					}
					res.ForkSites[k] += v
				}
				for f, n := range pr.Funcs {
					res.Funcs[f] += n
				}
				for f, n := range pr.Stubs {
					res.Stubs[f] += n
				}
				switch pr.Status {
				case "ok":
					res.Completed++
					if pr.Sample != nil && len(res.Samples) < 8 {
						res.Samples = append(res.Samples, pr.Sample)
					}
					if pr.Violation != nil { // path-end model (not a violation)
						res.SampleVecs = append(res.SampleVecs, pr.Violation)
					}
				case "vacuous":
					res.Vacuous++
				case "violation":
					res.Violations = append(res.Violations, pr.Violation)
					if len(res.Violations) >= opts.MaxViolations {
						stop = true
						res.Stopped = "violation limit"
					}
				default:
					res.Inconclusive++
					if len(res.InconclMsgs) < 5 {
						res.InconclMsgs = append(res.InconclMsgs, pr.Status+": "+pr.Msg)
					}
					if res.Inconclusive >= 3 {
						stop = true
						res.Stopped = "inconclusive paths"
					}
				}
				for _, w := range pr.NewWork {
					stack = append(stack, workItem{w})
				}
				if !stop && opts.MaxPaths > 0 && res.Paths >= opts.MaxPaths && (len(stack) > 0 || active > 0) {
					stop = true
					res.Stopped = fmt.Sprintf("path limit %d reached with work remaining", opts.MaxPaths)
					res.Inconclusive++
					res.InconclMsgs = append(res.InconclMsgs, res.Stopped)
				}
				if !stop && !opts.Deadline.IsZero() && time.Now().After(opts.Deadline) && (len(stack) > 0 || active > 0) {
					stop = true
					res.Stopped = "time limit reached with work remaining"
					res.Inconclusive++
					res.InconclMsgs = append(res.InconclMsgs, res.Stopped)
				}
				cond.Broadcast()
				mu.Unlock()
			}
			mu.Lock()
			res.Solver.Add(solver.Stats)
			mu.Unlock()
		}(w)
	}
	wg.Wait()
	res.Wall = time.Since(t0)
	return res
}

// staticCovers lists the constant labels of vfCover calls reachable in the
// harness function itself (including its closures).
func staticCovers(fn *ssa.Function) []string {
	seen := map[string]bool{}
	var visit func(f *ssa.Function)
	visit = func(f *ssa.Function) {
		for _, b := range f.Blocks {
			for _, in := range b.Instrs {
				if c, ok := in.(*ssa.Call); ok {
					if callee := c.Call.StaticCallee(); callee != nil && callee.Name() == "vfCover" && len(c.Call.Args) == 1 {
						if k, ok := c.Call.Args[0].(*ssa.Const); ok {
							seen[constValue(k).(string)] = true
						}
					}
				}
			}
		}
		for _, a := range f.AnonFuncs {
			visit(a)
		}
	}
	visit(fn)
	var out []string
	for k := range seen {
		out = append(out, k)
	}
	sort.Strings(out)
	return out
}

type pathResultExtra struct {
	assertions, assertQ, crossChecked int
}

func (e *Engine) newRun(fn *ssa.Function, solver *Solver, prefix []uint64, opts ExploreOpts) *Run {
	r := &Run{
		eng:          e,
		ts:           NewTermStore(),
		solver:       solver,
		harness:      fn,
		prefix:       prefix,
		globals:      make(map[*ssa.Global]*value),
		initDone:     make(map[*ssa.Package]bool),
		initBusy:     make(map[*ssa.Package]bool),
		poisoned:     make(map[*ssa.Global]bool),
		initWritten:  make(map[*ssa.Global]bool),
		inputN:       make(map[string]int),
		covers:       make(map[string]bool),
		funcs:        make(map[*ssa.Function]int),
		stubs:        make(map[string]int),
		mutexes:      make(map[*value]*mutexState),
		wgs:          make(map[*value]*wgState),
		onces:        make(map[*value]*onceState),
		hostval:      make(map[*value]value),
		decidedCache: make(map[*Term]int),
		og:           newOrderFacts(),
		instrLimit:   opts.InstrLimit,
		tier:         opts.Tier,
		seed:         opts.Seed,
		params:       opts.Params,
		files:        make(map[string][]byte),
		fsCrashAt:    -1,
	}
	if r.instrLimit == 0 {
		r.instrLimit = 20_000_000
	}
	r.preemptBudget = opts.Preempt
	r.preemptLocks = opts.PreemptLocks
	r.sched = newScheduler(r)
	r.clock.init()
	return r
}

func (e *Engine) runPath(fn *ssa.Function, solver *Solver, prefix []uint64, opts ExploreOpts, wantSample bool) (pr *PathResult) {
	r := e.newRun(fn, solver, prefix, opts)
	r.wantSample = wantSample
	pr = &PathResult{}
	solver.BeginRun()
	func() {
		defer func() {
			p := recover()
			switch p := p.(type) {
			case nil:
				pr.Status = "ok"
			case runAbort:
				switch p.kind {
				case "vacuous", "pathend":
					pr.Status = "vacuous"
				case "violation":
					pr.Status = "violation"
					pr.Violation = r.violation
				case "unwind":
					pr.Status = "unwind"
				case "deadlock":
					pr.Status = "deadlock"
				default:
					pr.Status = "inconclusive"
				}
				pr.Msg = p.msg
			case targetPanic:
				// an uncaught panic escaping the harness is a violation
				func() {
					defer func() {
						if q := recover(); q != nil {
							if ra, ok := q.(runAbort); ok && ra.kind == "violation" {
								pr.Status = "violation"
								pr.Violation = r.violation
								pr.Msg = ra.msg
								return
							}
							pr.Status = "inconclusive"
							pr.Msg = fmt.Sprint(q)
						}
					}()
					r.reportViolation("panic", "uncaught panic: "+r.panicString(p), "", nil)
				}()
			default:
				pr.Status = "inconclusive"
				pr.Msg = fmt.Sprintf("engine panic: %v\n%s", p, hostStack())
			}
		}()
		main := &frame{r: r, th: r.sched.main(), fn: fn}
		r.call(main, token.NoPos, fn, nil)
	}()
	if pr.Status == "ok" && len(r.trail) < len(prefix) {
		pr.Status = "inconclusive"
		pr.Msg = "replay divergence: path ended before its recorded prefix"
	}
	// hang-type statuses become violations of kind "hang" (need native confirmation)
	if pr.Status == "deadlock" || pr.Status == "unwind" {
		func() {
			defer func() {
				if q := recover(); q != nil {
					if ra, ok := q.(runAbort); ok && ra.kind == "violation" {
						pr.Violation = r.violation
						return
					}
					pr.Msg += " (and no model: " + fmt.Sprint(q) + ")"
				}
			}()
			r.reportViolation("hang", pr.Status+": "+pr.Msg, "", nil)
		}()
		if pr.Violation != nil {
			pr.Status = "violation"
		} else {
			pr.Status = "inconclusive"
		}
	}
	if pr.Status == "ok" && wantSample {
		func() {
			defer func() { recover() }()
			vars := r.inputVars()
			verdict, model := r.solver.Check(r.ts, nil, true, vars)
			if verdict == Sat {
				pr.Violation = &Violation{Harness: fn.Name(), Kind: "sample", Inputs: r.fillInputs(model), Observe: r.evalObservations(model)}
			}
		}()
	}
	r.sched.killAll()
	solver.EndRun()
	pr.NewWork = r.newWork
	pr.Trail = r.trail
	pr.Instrs = r.instrs
	pr.Decisions = r.nDecided
	pr.Forks = r.nForks
	pr.Forced = r.nForced
	pr.Covers = r.covers
	pr.ForkSites = r.forkSites
	pr.assertions = r.assertions
	pr.assertQ = r.assertQueries
	pr.crossChecked = r.crossChecked
	pr.Funcs = make(map[string]int)
	for f, n := range r.funcs {
		pr.Funcs[f.String()] += n
	}
	pr.Stubs = r.stubs
	if pr.Status == "ok" {
		ins := r.fillInputs(nil)
		if len(ins) > 12 {
			ins = ins[:12]
		}
		pr.Sample = &PathSample{Harness: fn.Name(), PCSize: r.pcN, Trail: len(r.trail), Inputs: ins}
	}
	if os.Getenv("GOSYM_DEBUG") != "" && pr.Status != "ok" && pr.Status != "vacuous" {
		fmt.Fprintf(os.Stderr, "[path %v] %s: %s\n", prefix, pr.Status, pr.Msg)
	}
	return pr
}

func (r *Run) panicString(p targetPanic) string {
	switch v := p.v.(type) {
	case iface:
		if s, ok := v.v.(string); ok {
			return s
		}
		if v.t != nil {
			// error value: try Error()
			if s, ok := r.tryErrorString(v); ok {
				return s
			}
		}
		return toString(v)
	}
	return toString(p.v)
}
