package main

// One Run = one execution of a harness along one path. Decisions (symbolic
// branches, concretisations, choices) follow a recorded prefix ("trail"); past
// its end the solver decides which alternatives are feasible, the first is
// taken and the others are queued as new prefixes (stateless DFS).

import (
	"fmt"
	"os"
	"go/types"
	"sort"
	"strings"

	"golang.org/x/tools/go/ssa"
)

// runAbort unwinds the interpreter; it is never visible to target recover().
type runAbort struct {
	kind string // "pathend", "inconclusive", "violation", "killed"
	msg  string
}

type InputRec struct {
	Name string `json:"name"`
	Kind string `json:"kind"`
	Var  string `json:"var,omitempty"` // solver variable; empty for concrete choices
	Val  uint64 `json:"val"`
	term *Term
}

type Violation struct {
	Harness string            `json:"harness"`
	Msg     string            `json:"msg"`
	Kind    string            `json:"kind"` // assert | panic | hang
	Inputs  []InputRec        `json:"inputs"`
	Trail   []uint64          `json:"trail"`
	Pos     string            `json:"pos,omitempty"`
	Model   map[string]uint64 `json:"-"`
	Observe []ObsRec          `json:"observe,omitempty"`
}

type ObsRec struct {
	Label string `json:"label"`
	Val   string `json:"val"`
}

type PathResult struct {
	Status     string // "ok", "vacuous", "violation", "inconclusive"
	Msg        string
	Violation  *Violation
	NewWork    [][]uint64
	Trail      []uint64
	Instrs     int
	Decisions  int // solver-decided (non-forced) decisions on this path
	Forks      int
	Forced     int
	Covers     map[string]bool
	ForkSites  map[string]int
	Funcs      map[string]int
	Stubs      map[string]int
	Sample     *PathSample
	Unsupported string
	assertions, assertQ, crossChecked int
}

type PathSample struct {
	Harness string     `json:"harness"`
	Inputs  []InputRec `json:"inputs"`
	Observe []ObsRec   `json:"observe"`
	PCSize  int        `json:"pc_conjuncts"`
	Trail   int        `json:"decisions"`
}

type Run struct {
	pools  map[*value][]value // sync.Pool contents (most recently returned object first out)
	eng    *Engine
	ts     *TermStore
	solver *Solver

	harness *ssa.Function
	pcN     int

	prefix  []uint64
	trail   []uint64
	newWork [][]uint64
	nDecided, nForced int
	nForks int // two-sided decisions on this path (including the inherited prefix)

	globals  map[*ssa.Global]*value
	initDone map[*ssa.Package]bool
	initBusy map[*ssa.Package]bool
	poisoned map[*ssa.Global]bool

	inputs  []InputRec
	inputN  map[string]int
	observe []obsVal
	covers  map[string]bool
	funcs   map[*ssa.Function]int
	stubs   map[string]int

	instrs     int
	instrLimit int
	loopCap    int

	// threads & time
	sched *scheduler
	clock clockState

	// side tables for host-modelled objects
	mutexes map[*value]*mutexState
	wgs     map[*value]*wgState
	onces   map[*value]*onceState
	hostval map[*value]value // atomic.Value, sync.Map etc.
	chanSeq int

	decidedCache map[*Term]int // term -> 1 true, 0 false (implied by the PC)
	model        map[string]uint64 // a model of the current path condition, or nil
	modelMemo    map[int]uint64
	scratch      *TermStore
	og           *orderFacts
	modelHits    int

	wantSample bool
	mapReverse bool
	tier       int
	seed       int64
	params     map[string]int64

	files map[string][]byte // host file-system model (C09 tokens file)
	fsLog []string
	fsCrashAt int
	fs        *fsState

	violation *Violation

	symCells      map[*value]*symCell
	curFrame      *frame
	forkSites     map[string]int
	depth         int
	scaledChecked map[*Term]bool
	scaledQueries int
	scaledHits    int
	preemptBudget int
	preemptLocks  bool // preemption points also before mutex acquisitions
	assertions    int
	assertQueries int
	crossChecked  int
	inInit        int
	initWritten   map[*ssa.Global]bool
}

var forkStats = os.Getenv("GOSYM_FORKSTATS") != ""

type obsVal struct {
	label string
	v     value
}

func (r *Run) abort(kind, msg string) {
	panic(runAbort{kind, msg})
}

func (r *Run) inconclusive(format string, args ...any) {
	panic(runAbort{"inconclusive", fmt.Sprintf(format, args...)})
}

// ---- trail ----

func (r *Run) inPrefix() bool { return len(r.trail) < len(r.prefix) }

func (r *Run) nextRecorded() uint64 {
	v := r.prefix[len(r.trail)]
	r.trail = append(r.trail, v)
	return v
}

func (r *Run) record(v uint64) { r.trail = append(r.trail, v) }

func (r *Run) pushSibling(v uint64) {
	w := make([]uint64, len(r.trail)+1)
	copy(w, r.trail)
	w[len(r.trail)] = v
	r.newWork = append(r.newWork, w)
}

func (r *Run) assertPC(t *Term) {
	if isTrue(t) {
		return
	}
	r.pcN++
	r.solver.Assert(t)
	r.og.learn(t)
	if r.model != nil && !r.evalBool(t) {
		r.model = nil
	}
}

// evalBool evaluates t under the current model (variables the model does not
// know are taken as 0: they were created after the model and are not yet
// constrained by the path condition).
func (r *Run) evalBool(t *Term) bool {
	return r.evalBits(t) != 0
}

func (r *Run) evalBits(t *Term) uint64 {
	if r.scratch == nil || r.scratch.nextID > 50000 {
		r.scratch = NewTermStore()
	}
	if r.modelMemo == nil {
		r.modelMemo = make(map[int]uint64)
	}
	return evalTermS(r.scratch, t, r.model, r.modelMemo)
}

func (r *Run) setModel(m map[string]uint64) {
	r.model = m
	r.modelMemo = nil
}

// check decides PC ∧ extra and keeps the model of a sat answer.
func (r *Run) check(extra *Term) Verdict {
	v, m := r.solver.Check(r.ts, extra, true, r.ts.vars)
	if v == Sat && m != nil {
		r.setModel(m)
	}
	return v
}

// branch decides a symbolic condition.
func (r *Run) branch(c *Term) bool {
	if c.op == OpConst {
		return c.c != 0
	}
	if d, ok := r.decidedCache[c]; ok {
		return d == 1
	}
	if d := r.og.decide(c); d != 0 {
		r.og.hits++
		if d == 1 {
			r.decidedCache[c] = 1
			return true
		}
		r.decidedCache[c] = 0
		return false
	}
	if r.inPrefix() {
		v := r.nextRecorded()
		switch v {
		case 1:
			r.nForks++
			r.assertPC(c)
			r.decidedCache[c] = 1
			return true
		case 0:
			r.nForks++
			r.assertPC(r.ts.Not(c))
			r.decidedCache[c] = 0
			return false
		case 3: // forced true
			r.decidedCache[c] = 1
			r.og.learn(c)
			return true
		case 2: // forced false
			r.decidedCache[c] = 0
			r.og.learn(r.ts.Not(c))
			return false
		}
		r.inconclusive("trail mismatch at branch: %d", v)
	}
	nc := r.ts.Not(c)
	if r.model != nil {
		// the model already witnesses one side; only the other needs a query
		r.modelHits++
		b := r.evalBool(c)
		other := nc
		if !b {
			other = c
		}
		saved, savedMemo := r.model, r.modelMemo
		vo := r.check(other)
		if vo == Unknown {
			r.inconclusive("solver unknown on branch condition %s (%s)", other, r.solver.lastErr)
		}
		if vo == Unsat {
			r.nForced++
			r.decidedCache[c] = 0
			if b {
				r.record(3)
				r.decidedCache[c] = 1
				r.og.learn(c)
			} else {
				r.record(2)
				r.og.learn(nc)
			}
			return b
		}
		// both sides feasible; we continue on the true side
		if b {
			r.model, r.modelMemo = saved, savedMemo
		}
	} else {
		vt := r.check(c)
		if vt == Unknown {
			r.inconclusive("solver unknown on branch condition %s (%s)", c, r.solver.lastErr)
		}
		if vt == Unsat {
			r.nForced++
			r.record(2)
			r.decidedCache[c] = 0
			r.og.learn(nc)
			return false
		}
		saved, savedMemo := r.model, r.modelMemo
		vf := r.check(nc)
		if vf == Unknown {
			r.inconclusive("solver unknown on branch condition %s (%s)", nc, r.solver.lastErr)
		}
		if vf == Unsat {
			r.nForced++
			r.record(3)
			r.decidedCache[c] = 1
			r.og.learn(c)
			return true
		}
		r.model, r.modelMemo = saved, savedMemo
	}
	r.nDecided++
	r.nForks++
	if forkStats && r.curFrame != nil {
		if r.forkSites == nil {
			r.forkSites = make(map[string]int)
		}
		r.forkSites[r.curFrame.pos()]++
	}
	r.pushSibling(0)
	r.record(1)
	r.assertPC(c)
	r.decidedCache[c] = 1
	return true
}

// choice returns a value in [0,n) - every alternative is explored.
func (r *Run) choice(n int) int {
	if n <= 1 {
		return 0
	}
	r.nForks++
	if r.inPrefix() {
		return int(r.nextRecorded())
	}
	for i := n - 1; i >= 1; i-- {
		r.pushSibling(uint64(i))
	}
	r.nDecided++
	r.record(0)
	return 0
}

// assume constrains the path; an infeasible assumption ends the path.
func (r *Run) assume(c *Term) {
	if c.op == OpConst {
		if c.c == 0 {
			r.abort("vacuous", "assumption is false")
		}
		return
	}
	if d, ok := r.decidedCache[c]; ok {
		if d == 0 {
			r.abort("vacuous", "assumption contradicts path")
		}
		return
	}
	if d := r.og.decide(c); d != 0 {
		r.og.hits++
		if d == -1 {
			r.abort("vacuous", "assumption contradicts path")
		}
		r.decidedCache[c] = 1
		return
	}
	if r.inPrefix() {
		r.nextRecorded()
		r.assertPC(c)
		r.decidedCache[c] = 1
		return
	}
	if r.model != nil && r.evalBool(c) {
		r.modelHits++
	} else {
		v := r.check(c)
		if v == Unknown {
			r.inconclusive("solver unknown on assumption %s (%s)", c, r.solver.lastErr)
		}
		if v == Unsat {
			r.abort("vacuous", "assumption infeasible")
		}
	}
	r.record(1)
	r.assertPC(c)
	r.decidedCache[c] = 1
}

// concretize forks over the feasible values of t.
func (r *Run) concretize(t *Term, why string) uint64 {
	if t.op == OpConst {
		return t.c
	}
	for guard := 0; guard < 4096; guard++ {
		var v0 uint64
		if r.inPrefix() {
			v0 = r.nextRecorded()
		} else {
			if r.model == nil {
				if verdict := r.check(nil); verdict != Sat || r.model == nil {
					r.inconclusive("concretize(%s): solver %v", why, verdict)
				}
			}
			v0 = r.evalBits(t)
			r.record(v0)
		}
		if r.branch(r.ts.Eq(t, r.ts.Const(t.sort, v0))) {
			return v0
		}
	}
	r.inconclusive("concretize(%s): too many values", why)
	return 0
}

// ---- inputs ----

func (r *Run) inputName(name string) string {
	n := r.inputN[name]
	r.inputN[name] = n + 1
	if n > 0 {
		return fmt.Sprintf("%s#%d", name, n)
	}
	return name
}

func smtName(s string) string {
	var sb strings.Builder
	sb.WriteString("v_")
	for _, ch := range s {
		if ch >= 'a' && ch <= 'z' || ch >= 'A' && ch <= 'Z' || ch >= '0' && ch <= '9' || ch == '_' {
			sb.WriteRune(ch)
		} else {
			fmt.Fprintf(&sb, "_%x_", ch)
		}
	}
	return sb.String()
}

func (r *Run) freshInput(name string, k types.BasicKind, kindName string) value {
	full := r.inputName(name)
	if v, ok := r.eng.concreteInputs[full]; ok && r.eng.concreteMode {
		r.inputs = append(r.inputs, InputRec{Name: full, Kind: kindName, Val: v})
		return fromBits(k, v&mask(kindSort(k).Bits()))
	}
	t := r.ts.Var(kindSort(k), smtName(full))
	r.inputs = append(r.inputs, InputRec{Name: full, Kind: kindName, Var: t.name, term: t})
	return Sym{T: t, K: k}
}

func (r *Run) inputVars() []*Term {
	var vs []*Term
	for _, in := range r.inputs {
		if in.term != nil {
			vs = append(vs, in.term)
		}
	}
	return vs
}

func (r *Run) fillInputs(model map[string]uint64) []InputRec {
	out := make([]InputRec, len(r.inputs))
	copy(out, r.inputs)
	for i := range out {
		if out[i].term != nil {
			out[i].Val = model[out[i].Var]
		}
		out[i].term = nil
	}
	return out
}

func (r *Run) reportViolation(kind, msg, pos string, extra *Term) {
	// obtain a model of PC ∧ extra
	vars := r.inputVars()
	verdict, model := r.solver.Check(r.ts, extra, true, vars)
	if verdict != Sat {
		r.inconclusive("violation model unavailable (%v): %s", verdict, msg)
	}
	v := &Violation{Harness: r.harness.Name(), Msg: msg, Kind: kind, Pos: pos,
		Inputs: r.fillInputs(model), Trail: append([]uint64(nil), r.trail...), Model: model}
	v.Observe = r.evalObservations(model)
	r.violation = v
	r.abort("violation", msg)
}

func (r *Run) evalObservations(model map[string]uint64) []ObsRec {
	memo := make(map[int]uint64)
	var out []ObsRec
	for _, o := range r.observe {
		out = append(out, ObsRec{o.label, r.renderValue(o.v, model, memo)})
	}
	return out
}

// renderValue prints a value with symbolic parts evaluated under the model, in
// the same format as the native vfObserve (fmt %v of plain data).
func (r *Run) renderValue(v value, model map[string]uint64, memo map[int]uint64) string {
	switch v := v.(type) {
	case Sym:
		bits := evalTerm(v.T, model, memo)
		return fmt.Sprintf("%v", fromBits(v.K, bits))
	case *symstr:
		bs := make([]byte, len(v.b))
		for i, b := range v.b {
			switch b := b.(type) {
			case uint8:
				bs[i] = b
			case Sym:
				bs[i] = byte(evalTerm(b.T, model, memo))
			}
		}
		return fmt.Sprintf("%q", string(bs))
	case string:
		return fmt.Sprintf("%q", v)
	case []value:
		parts := make([]string, len(v))
		for i := range v {
			parts[i] = r.renderValue(v[i], model, memo)
		}
		return "[" + strings.Join(parts, " ") + "]"
	case array:
		return r.renderValue([]value(v), model, memo)
	case structure:
		parts := make([]string, len(v))
		for i := range v {
			parts[i] = r.renderValue(v[i], model, memo)
		}
		return "{" + strings.Join(parts, " ") + "}"
	case iface:
		if v.t == nil {
			return "<nil>"
		}
		return r.renderValue(v.v, model, memo)
	case *value:
		if v == nil {
			return "<nil>"
		}
		return "&" + r.renderValue(*v, model, memo)
	case *omap:
		if v == nil {
			return "map[]"
		}
		var parts []string
		for i := range v.keys {
			if !v.dead[i] {
				parts = append(parts, r.renderValue(v.keys[i], model, memo)+":"+r.renderValue(v.vals[i], model, memo))
			}
		}
		sort.Strings(parts)
		return "map[" + strings.Join(parts, " ") + "]"
	case nil:
		return "<nil>"
	}
	return fmt.Sprintf("%v", v)
}
