// Copyright 2013 The Go Authors. All rights reserved.
// Use of this source code is governed by a BSD-style
// license that can be found in the LICENSE.x-tools file.
//
// Derived from golang.org/x/tools/go/ssa/interp (ops.go): operators on
// values, extended with symbolic operands.

package main

import (
	"fmt"
	"go/token"
	"go/types"
	"math"
	"unicode/utf8"
	"unsafe"

	"golang.org/x/tools/go/ssa"
)

func float64frombits(u uint64) float64 { return math.Float64frombits(u) }
func float64bits(f float64) uint64     { return math.Float64bits(f) }

// uptr is an unsafe.Pointer holding an engine pointer.
type uptr struct{ p value }

// dataPtr is the result of unsafe.StringData / unsafe.SliceData.
type dataPtr struct{ b []value }

// poisonVal is the result of an unsupported call during package initialisation.
type poisonVal struct{}

// term converts a scalar value to a term of its kind.
func (r *Run) term(v value) *Term {
	switch v := v.(type) {
	case Sym:
		return v.T
	case float64:
		return r.ts.FConst(v)
	}
	k := kindOfValue(v)
	if k == types.Invalid || k == types.Float32 {
		panic(fmt.Sprintf("term: cannot convert %T", v))
	}
	return r.ts.Const(kindSort(k), toBits(v))
}

// boolTerm converts a bool-or-Sym to a term.
func (r *Run) boolTerm(v value) *Term {
	switch v := v.(type) {
	case bool:
		return r.ts.Bool(v)
	case Sym:
		return v.T
	}
	panic(fmt.Sprintf("boolTerm: %T", v))
}

func (r *Run) boolVal(t *Term) value { return symOrConc(t, types.Bool) }

// binop implements all arithmetic and logical binary operators.
func (r *Run) binop(fr *frame, op token.Token, t types.Type, x, y value) value {
	switch op {
	case token.EQL:
		return r.boolVal(r.eqValue(t, x, y))
	case token.NEQ:
		return r.boolVal(r.ts.Not(r.eqValue(t, x, y)))
	}
	_, xs := x.(Sym)
	_, ys := y.(Sym)
	if xs || ys {
		return r.symBinop(fr, op, x, y)
	}
	_, xss := x.(*symstr)
	_, yss := y.(*symstr)
	if xss || yss {
		return r.strBinop(fr, op, x, y)
	}
	// concrete division by zero is a target panic
	if op == token.QUO || op == token.REM {
		switch y.(type) {
		case float32, float64, complex64, complex128:
		default:
			if toBits(y) == 0 {
				r.targetPanicStr(fr, "runtime error: integer divide by zero")
			}
		}
	}
	if op == token.SHL || op == token.SHR {
		if kindSigned(kindOfValue(y)) && asInt64(y) < 0 {
			r.targetPanicStr(fr, "runtime error: negative shift amount")
		}
	}
	return concBinop(op, t, x, y)
}

func (r *Run) symBinop(fr *frame, op token.Token, x, y value) value {
	ts := r.ts
	kx, ky := kindOfValue(x), kindOfValue(y)
	if op == token.SHL || op == token.SHR {
		// operands may have different kinds
		xt, yt := r.term(x), r.term(y)
		if kindSigned(ky) {
			neg := ts.Cmp(OpSLt, yt, ts.Const(yt.sort, 0))
			if r.branch(neg) {
				r.targetPanicStr(fr, "runtime error: negative shift amount")
			}
		}
		w := xt.sort.Bits()
		var cnt *Term
		if yt.sort.Bits() > w {
			big := ts.Cmp(OpULe, ts.Const(yt.sort, uint64(w)), yt)
			cnt = ts.Ite(big, ts.Const(xt.sort, uint64(w)), ts.Resize(yt, xt.sort, false))
		} else {
			cnt = ts.Resize(yt, xt.sort, false)
		}
		var res *Term
		if op == token.SHL {
			res = ts.Bin(OpShl, xt, cnt)
		} else if kindSigned(kx) {
			res = ts.Bin(OpAShr, xt, cnt)
		} else {
			res = ts.Bin(OpLShr, xt, cnt)
		}
		return symOrConc(res, kx)
	}
	k := kx
	if _, ok := x.(Sym); !ok {
		k = ky
	}
	xt, yt := r.term(x), r.term(y)
	if xt.sort != yt.sort {
		panic(fmt.Sprintf("symBinop %s: sorts differ: %T(%v) %T(%v)", op, x, kx, y, ky))
	}
	if k == types.Float64 {
		switch op {
		case token.ADD:
			return symOrConc(ts.FBin(OpFAdd, xt, yt), k)
		case token.SUB:
			return symOrConc(ts.FBin(OpFSub, xt, yt), k)
		case token.MUL:
			return symOrConc(ts.FBin(OpFMul, xt, yt), k)
		case token.QUO:
			return symOrConc(ts.FBin(OpFDiv, xt, yt), k)
		case token.LSS:
			return r.boolVal(ts.FCmp(OpFLt, xt, yt))
		case token.LEQ:
			return r.boolVal(ts.FCmp(OpFLe, xt, yt))
		case token.GTR:
			return r.boolVal(ts.FCmp(OpFLt, yt, xt))
		case token.GEQ:
			return r.boolVal(ts.FCmp(OpFLe, yt, xt))
		}
		panic(fmt.Sprintf("symBinop: float op %s", op))
	}
	if k == types.Bool {
		switch op {
		case token.AND, token.LAND:
			return r.boolVal(ts.And(xt, yt))
		case token.OR, token.LOR:
			return r.boolVal(ts.Or(xt, yt))
		}
		panic(fmt.Sprintf("symBinop: bool op %s", op))
	}
	signed := kindSigned(k)
	switch op {
	case token.ADD:
		return symOrConc(r.scaledAddSub(OpAdd, xt, yt), k)
	case token.SUB:
		return symOrConc(r.scaledAddSub(OpSub, xt, yt), k)
	case token.MUL:
		return symOrConc(ts.Bin(OpMul, xt, yt), k)
	case token.QUO, token.REM:
		zero := ts.Eq(yt, ts.Const(yt.sort, 0))
		if r.branch(zero) {
			r.targetPanicStr(fr, "runtime error: integer divide by zero")
		}
		if res, ok := r.scaledDivRem(op, xt, yt, signed); ok {
			return symOrConc(res, k)
		}
		var o Op
		switch {
		case op == token.QUO && signed:
			o = OpSDiv
		case op == token.QUO:
			o = OpUDiv
		case signed:
			o = OpSRem
		default:
			o = OpURem
		}
		return symOrConc(ts.Bin(o, xt, yt), k)
	case token.AND:
		return symOrConc(ts.Bin(OpBAnd, xt, yt), k)
	case token.OR:
		return symOrConc(ts.Bin(OpBOr, xt, yt), k)
	case token.XOR:
		return symOrConc(ts.Bin(OpBXor, xt, yt), k)
	case token.AND_NOT:
		return symOrConc(ts.Bin(OpBAnd, xt, ts.Un(OpBNot, yt)), k)
	case token.LSS:
		return r.boolVal(r.cmpTerm(signed, false, xt, yt))
	case token.LEQ:
		return r.boolVal(r.cmpTerm(signed, true, xt, yt))
	case token.GTR:
		return r.boolVal(r.cmpTerm(signed, false, yt, xt))
	case token.GEQ:
		return r.boolVal(r.cmpTerm(signed, true, yt, xt))
	}
	panic(fmt.Sprintf("symBinop: invalid op %s on %T %T", op, x, y))
}

// cmpTerm builds a < b (or <=).
func (r *Run) cmpTerm(signed, orEq bool, a, b *Term) *Term {
	if signed && a.sort == SBV64 {
		if t, ok := r.scaledCmp(orEq, a, b); ok {
			return t
		}
	}
	var o Op
	switch {
	case signed && orEq:
		o = OpSLe
	case signed:
		o = OpSLt
	case orEq:
		o = OpULe
	default:
		o = OpULt
	}
	return r.ts.Cmp(o, a, b)
}

// strBinop handles + and comparisons on strings with symbolic bytes.
func (r *Run) strBinop(fr *frame, op token.Token, x, y value) value {
	switch op {
	case token.ADD:
		xb, yb := strBytes(x), strBytes(y)
		nb := make([]value, 0, len(xb)+len(yb))
		nb = append(nb, xb...)
		nb = append(nb, yb...)
		return mkStr(nb)
	case token.LSS:
		return r.boolVal(r.strLess(x, y, false))
	case token.LEQ:
		return r.boolVal(r.strLess(x, y, true))
	case token.GTR:
		return r.boolVal(r.strLess(y, x, false))
	case token.GEQ:
		return r.boolVal(r.strLess(y, x, true))
	}
	panic(fmt.Sprintf("strBinop: invalid op %s", op))
}

// strLess builds the lexicographic comparison x < y (or <=).
func (r *Run) strLess(x, y value, orEq bool) *Term {
	ts := r.ts
	xb, yb := strBytes(x), strBytes(y)
	n := len(xb)
	if len(yb) < n {
		n = len(yb)
	}
	// result when the common prefix is equal
	var tail *Term
	if len(xb) < len(yb) {
		tail = ts.Bool(true)
	} else if len(xb) == len(yb) {
		tail = ts.Bool(orEq)
	} else {
		tail = ts.Bool(false)
	}
	res := tail
	for i := n - 1; i >= 0; i-- {
		a, b := r.term(xb[i]), r.term(yb[i])
		res = ts.Ite(ts.Cmp(OpULt, a, b), ts.Bool(true), ts.Ite(ts.Eq(a, b), res, ts.Bool(false)))
	}
	return res
}

// eqValue returns the term for x == y using the equivalence relation
// appropriate for type t.
func (r *Run) eqValue(t types.Type, x, y value) *Term {
	ts := r.ts
	if t != nil {
		switch t.Underlying().(type) {
		case *types.Map, *types.Signature, *types.Slice:
			// one of the operands must be a literal nil.
			return ts.Bool(isNilRef(x) == isNilRef(y))
		}
	}
	switch x := x.(type) {
	case Sym:
		yt := r.term(y)
		if e, ok := r.scaledEq(x.T, yt); ok {
			return e
		}
		return ts.Eq(x.T, yt)
	case bool, int, int8, int16, int32, int64, uint, uint8, uint16, uint32, uint64, uintptr, float64:
		if ys, ok := y.(Sym); ok {
			xt := r.term(x)
			if e, ok := r.scaledEq(xt, ys.T); ok {
				return e
			}
			return ts.Eq(xt, ys.T)
		}
		return ts.Bool(x == y)
	case float32, complex64, complex128:
		return ts.Bool(x == y)
	case string:
		if ys, ok := y.(*symstr); ok {
			return r.strEq(x, ys)
		}
		return ts.Bool(x == y.(string))
	case *symstr:
		return r.strEq(x, y)
	case *value:
		return ts.Bool(x == y.(*value))
	case *channel:
		return ts.Bool(x == y.(*channel))
	case *omap:
		return ts.Bool(x == y.(*omap))
	case unsafe.Pointer:
		if yp, ok := y.(unsafe.Pointer); ok {
			return ts.Bool(x == yp)
		}
		return ts.Bool(false)
	case dataPtr:
		yp, ok := y.(dataPtr)
		return ts.Bool(ok && unsafe.SliceData(x.b) == unsafe.SliceData(yp.b))
	case uptr:
		if yp, ok := y.(uptr); ok {
			return r.eqValue(nil, x.p, yp.p)
		}
		return ts.Bool(false)
	case *hostObj:
		return ts.Bool(x == y.(*hostObj))
	case structure:
		ys := y.(structure)
		var st *types.Struct
		if t != nil {
			st, _ = t.Underlying().(*types.Struct)
		}
		res := ts.Bool(true)
		for i := range x {
			var ft types.Type
			if st != nil {
				f := st.Field(i)
				if f.Name() == "_" {
					continue
				}
				ft = f.Type()
			}
			res = ts.And(res, r.eqValue(ft, x[i], ys[i]))
		}
		return res
	case array:
		ya := y.(array)
		var et types.Type
		if t != nil {
			if at, ok := t.Underlying().(*types.Array); ok {
				et = at.Elem()
			}
		}
		res := ts.Bool(true)
		for i := range x {
			res = ts.And(res, r.eqValue(et, x[i], ya[i]))
		}
		return res
	case iface:
		yi := y.(iface)
		if !sameType(x.t, yi.t) {
			return ts.Bool(false)
		}
		if x.t == nil {
			return ts.Bool(true)
		}
		switch x.t.Underlying().(type) {
		case *types.Map, *types.Signature, *types.Slice:
			panic(targetPanic{iface{t: r.eng.runtimeErrorString, v: "runtime error: comparing uncomparable type " + x.t.String()}})
		}
		return r.eqValue(x.t, x.v, yi.v)
	case *ssa.Function:
		if yf, ok := y.(*ssa.Function); ok {
			return ts.Bool(x == yf)
		}
		return ts.Bool(false)
	case *closure:
		if yc, ok := y.(*closure); ok {
			return ts.Bool(x == yc)
		}
		return ts.Bool(false)
	case *hostFunc:
		return ts.Bool(x == y)
	}
	panic(fmt.Sprintf("eqValue: comparing uncomparable %T (type %v)", x, t))
}

func isNilRef(v value) bool {
	switch v := v.(type) {
	case *omap:
		return v == nil
	case []value:
		return v == nil
	case *ssa.Function:
		return v == nil
	case *closure:
		return v == nil
	case *hostFunc:
		return v == nil
	case *ssa.Builtin:
		return v == nil
	}
	panic(fmt.Sprintf("isNilRef: %T", v))
}

func (r *Run) strEq(x, y value) *Term {
	xb, yb := strBytes(x), strBytes(y)
	if len(xb) != len(yb) {
		return r.ts.Bool(false)
	}
	res := r.ts.Bool(true)
	for i := range xb {
		res = r.ts.And(res, r.ts.Eq(r.term(xb[i]), r.term(yb[i])))
	}
	return res
}

func (r *Run) unop(fr *frame, instr *ssa.UnOp, x value) value {
	switch instr.Op {
	case token.ARROW: // receive
		ch, _ := x.(*channel)
		v, ok := r.chanRecv(fr, ch)
		if !ok {
			v = zero(instr.X.Type().Underlying().(*types.Chan).Elem())
		}
		if instr.CommaOk {
			v = tuple{v, ok}
		}
		return v
	case token.MUL:
		p, _ := x.(*value)
		if p == nil {
			r.targetPanicStr(fr, "runtime error: invalid memory address or nil pointer dereference")
		}
		return load(deref(instr.X.Type()), p)
	}
	if s, ok := x.(Sym); ok {
		switch instr.Op {
		case token.SUB:
			if s.K == types.Float64 {
				return symOrConc(r.ts.FNeg(s.T), s.K)
			}
			if s.K == types.Int64 {
				if _, _, ok := r.scaledParts(s.T); ok {
					return symOrConc(r.scaledAddSub(OpSub, r.ts.Const(SBV64, 0), s.T), s.K)
				}
			}
			return symOrConc(r.ts.Un(OpNeg, s.T), s.K)
		case token.NOT:
			return r.boolVal(r.ts.Not(s.T))
		case token.XOR:
			return symOrConc(r.ts.Un(OpBNot, s.T), s.K)
		}
	}
	switch instr.Op {
	case token.SUB:
		switch x := x.(type) {
		case int:
			return -x
		case int8:
			return -x
		case int16:
			return -x
		case int32:
			return -x
		case int64:
			return -x
		case uint:
			return -x
		case uint8:
			return -x
		case uint16:
			return -x
		case uint32:
			return -x
		case uint64:
			return -x
		case uintptr:
			return -x
		case float32:
			return -x
		case float64:
			return -x
		case complex64:
			return -x
		case complex128:
			return -x
		}
	case token.NOT:
		return !x.(bool)
	case token.XOR:
		switch x := x.(type) {
		case int:
			return ^x
		case int8:
			return ^x
		case int16:
			return ^x
		case int32:
			return ^x
		case int64:
			return ^x
		case uint:
			return ^x
		case uint8:
			return ^x
		case uint16:
			return ^x
		case uint32:
			return ^x
		case uint64:
			return ^x
		case uintptr:
			return ^x
		}
	}
	panic(fmt.Sprintf("invalid unary op %s %T", instr.Op, x))
}

// slice returns x[lo:hi:max].  Any of lo, hi and max may be nil.
func (r *Run) slice(fr *frame, x, lo, hi, max value) value {
	var Len, Cap int
	switch x := x.(type) {
	case string:
		Len = len(x)
		Cap = Len
	case *symstr:
		Len = len(x.b)
		Cap = Len
	case []value:
		Len = len(x)
		Cap = cap(x)
	case *value: // *array
		if x == nil {
			r.targetPanicStr(fr, "runtime error: invalid memory address or nil pointer dereference")
		}
		a := (*x).(array)
		Len = len(a)
		Cap = cap(a)
	}
	m := Cap
	if max != nil {
		m = r.intBound(fr, max, Cap, "slice bounds (max)")
	}
	h := Len
	if hi != nil {
		h = r.intBound(fr, hi, m, "slice bounds (high)")
	}
	l := 0
	if lo != nil {
		l = r.intBound(fr, lo, h, "slice bounds (low)")
	}
	switch x := x.(type) {
	case string:
		return x[l:h]
	case *symstr:
		return mkStr(x.b[l:h])
	case []value:
		return x[l:h:m]
	case *value: // *array
		a := (*x).(array)
		return []value(a)[l:h:m]
	}
	panic(fmt.Sprintf("slice: unexpected X type: %T", x))
}

// ---- maps ----

// mapFind returns the position of key in m or -1; symbolic keys fork.
func (r *Run) mapFind(m *omap, key value) int {
	if m == nil {
		return -1
	}
	if ck, ok := concKey(key); ok {
		if i, ok := m.idx[ck]; ok && !m.dead[i] {
			return i
		}
		if m.nsym == 0 {
			return -1
		}
		for i := range m.keys {
			if m.dead[i] || !m.symk[i] {
				continue
			}
			if r.branch(r.eqValue(m.keyType, m.keys[i], key)) {
				return i
			}
		}
		return -1
	}
	// symbolic key: syntactic match first
	var undecided []int
	for i := range m.keys {
		if m.dead[i] {
			continue
		}
		c := r.eqValue(m.keyType, m.keys[i], key)
		if isTrue(c) {
			return i
		}
		if !isFalse(c) {
			undecided = append(undecided, i)
		}
	}
	for _, i := range undecided {
		if r.branch(r.eqValue(m.keyType, m.keys[i], key)) {
			return i
		}
	}
	return -1
}

func (r *Run) mapUpdate(fr *frame, m *omap, key, v value) {
	if k, ok := key.(iface); ok && k.t != nil {
		switch k.t.Underlying().(type) {
		case *types.Map, *types.Signature, *types.Slice:
			panic(targetPanic{iface{t: r.eng.runtimeErrorString, v: "runtime error: hash of unhashable type " + k.t.String()}})
		}
	}
	if i := r.mapFind(m, key); i >= 0 {
		m.vals[i] = v
		return
	}
	m.keys = append(m.keys, key)
	m.vals = append(m.vals, v)
	m.dead = append(m.dead, false)
	ck, conc := concKey(key)
	m.symk = append(m.symk, !conc)
	if conc {
		m.idx[ck] = len(m.keys) - 1
	} else {
		m.nsym++
	}
	m.n++
}

func (r *Run) mapDelete(m *omap, key value) {
	if m == nil {
		return
	}
	if i := r.mapFind(m, key); i >= 0 {
		m.dead[i] = true
		m.n--
		if m.symk[i] {
			m.nsym--
		} else if ck, ok := concKey(m.keys[i]); ok {
			delete(m.idx, ck)
		}
	}
}

// lookup returns x[idx] where x is a map.
func (r *Run) lookup(fr *frame, instr *ssa.Lookup, x, idx value) value {
	switch x := x.(type) { // map or string
	case *omap:
		var v value
		i := r.mapFind(x, idx)
		ok := i >= 0
		if ok {
			v = copyVal(x.vals[i])
		} else {
			v = zero(instr.X.Type().Underlying().(*types.Map).Elem())
		}
		if instr.CommaOk {
			v = tuple{v, ok}
		}
		return v
	}
	panic(fmt.Sprintf("unexpected x type in Lookup: %T", x))
}

// typeAssert checks whether dynamic type of itf is instr.AssertedType.
func (r *Run) typeAssert(fr *frame, instr *ssa.TypeAssert, itf iface) value {
	var v value
	err := ""
	if itf.t == nil {
		err = fmt.Sprintf("interface conversion: interface is nil, not %s", instr.AssertedType)

	} else if idst, ok := instr.AssertedType.Underlying().(*types.Interface); ok {
		v = itf
		if meth, _ := types.MissingMethod(itf.t, idst, true); meth != nil {
			err = fmt.Sprintf("interface conversion: %v is not %v: missing method %s", itf.t, idst, meth.Name())
		}

	} else if types.Identical(itf.t, instr.AssertedType) {
		v = itf.v // extract value

	} else {
		err = fmt.Sprintf("interface conversion: interface is %s, not %s", itf.t, instr.AssertedType)
	}

	if err != "" {
		if !instr.CommaOk {
			panic(targetPanic{iface{t: r.eng.runtimeErrorString, v: err}})
		}
		return tuple{zero(instr.AssertedType), false}
	}
	if instr.CommaOk {
		return tuple{v, true}
	}
	return v
}

// callBuiltin interprets a call to builtin fn with arguments args,
// returning its result.
func (r *Run) callBuiltin(caller *frame, fn *ssa.Builtin, args []value) value {
	switch fn.Name() {
	case "append":
		if len(args) == 1 {
			return args[0]
		}
		switch s := args[1].(type) {
		case string, *symstr:
			// append([]byte, ...string) []byte
			return append(args[0].([]value), strBytes(s)...)
		}
		// append([]T, ...[]T) []T
		src := args[1].([]value)
		dst := args[0].([]value)
		for _, e := range src {
			dst = append(dst, copyVal(e))
		}
		if dst == nil && src != nil {
			dst = []value{}
		}
		return dst

	case "copy": // copy([]T, []T) int or copy([]byte, string) int
		src := args[1]
		switch s := src.(type) {
		case string, *symstr:
			src = strBytes(s)
		}
		dst := args[0].([]value)
		s := src.([]value)
		n := len(dst)
		if len(s) < n {
			n = len(s)
		}
		// memmove semantics
		tmp := make([]value, n)
		for i := 0; i < n; i++ {
			tmp[i] = copyVal(s[i])
		}
		copy(dst, tmp)
		return n

	case "close": // close(chan T)
		ch, _ := args[0].(*channel)
		r.chanClose(caller, ch)
		return nil

	case "delete": // delete(map[K]value, K)
		r.mapDelete(args[0].(*omap), args[1])
		return nil

	case "clear":
		switch x := args[0].(type) {
		case *omap:
			if x != nil {
				x.keys, x.vals, x.dead, x.symk = nil, nil, nil, nil
				x.idx = make(map[any]int)
				x.n, x.nsym = 0, 0
			}
		case []value:
			if len(x) > 0 {
				et := fn.Type().(*types.Signature).Params().At(0).Type().Underlying().(*types.Slice).Elem()
				for i := range x {
					x[i] = zero(et)
				}
			}
		}
		return nil

	case "print", "println": // print(any, ...)
		return nil

	case "len":
		switch x := args[0].(type) {
		case string:
			return len(x)
		case *symstr:
			return len(x.b)
		case array:
			return len(x)
		case *value:
			if x == nil {
				// len of nil *array is the array length (static); use the type
				at := deref(fn.Type().(*types.Signature).Params().At(0).Type()).Underlying().(*types.Array)
				return int(at.Len())
			}
			return len((*x).(array))
		case []value:
			return len(x)
		case *omap:
			return x.len()
		case *channel:
			if x == nil {
				return 0
			}
			return len(x.buf)
		default:
			panic(fmt.Sprintf("len: illegal operand: %T", x))
		}

	case "cap":
		switch x := args[0].(type) {
		case array:
			return cap(x)
		case *value:
			return cap((*x).(array))
		case []value:
			return cap(x)
		case *channel:
			if x == nil {
				return 0
			}
			return x.cap
		default:
			panic(fmt.Sprintf("cap: illegal operand: %T", x))
		}

	case "min":
		return r.foldMinMax(caller, args, true)
	case "max":
		return r.foldMinMax(caller, args, false)

	case "panic":
		// ssa.Panic handles most cases; this is only for "go
		// panic" or "defer panic".
		panic(targetPanic{args[0]})

	case "recover":
		return doRecover(caller)

	case "ssa:wrapnilchk":
		recv := args[0]
		if p, _ := recv.(*value); p == nil {
			recvType := args[1]
			methodName := args[2]
			r.targetPanicStr(caller, fmt.Sprintf("value method (%s).%s called using nil *%s pointer",
				recvType, methodName, recvType))
		}
		return recv

	case "ssa:deferstack":
		return &caller.defers

	// unsafe.{StringData,SliceData,String,Slice}: the "pointer" keeps the
	// whole backing sequence so that String/Slice can rebuild a view.
	case "StringData":
		return dataPtr{strBytes(args[0])}
	case "SliceData":
		return dataPtr{args[0].([]value)}
	case "String":
		p, ok := args[0].(dataPtr)
		if !ok {
			r.inconclusive("unsafe.String on %T", args[0])
		}
		n := int(asInt64(r.concValue(args[1], "unsafe.String len")))
		return mkStr(p.b[:n])
	case "Slice":
		p, ok := args[0].(dataPtr)
		if !ok {
			r.inconclusive("unsafe.Slice on %T", args[0])
		}
		n := int(asInt64(r.concValue(args[1], "unsafe.Slice len")))
		if n == 0 {
			return []value{}
		}
		out := make([]value, n)
		copy(out, p.b[:n])
		return out
	}

	panic("unknown built-in: " + fn.Name())
}

func (r *Run) foldMinMax(fr *frame, args []value, isMin bool) value {
	x := args[0]
	for _, y := range args[1:] {
		_, xs := x.(Sym)
		_, ys := y.(Sym)
		if xs || ys {
			k := kindOfValue(x)
			if !xs {
				k = kindOfValue(y)
			}
			xt, yt := r.term(x), r.term(y)
			var c *Term
			if k == types.Float64 {
				c = r.ts.FCmp(OpFLt, yt, xt)
			} else {
				c = r.cmpTerm(kindSigned(k), false, yt, xt)
			}
			if isMin {
				x = symOrConc(r.ts.Ite(c, yt, xt), k)
			} else {
				x = symOrConc(r.ts.Ite(c, xt, yt), k)
			}
			continue
		}
		if _, isStr := x.(*symstr); isStr {
			panic("min/max on symbolic strings")
		}
		switch xv := x.(type) {
		case float32:
			if isMin {
				x = fmin(xv, y.(float32))
			} else {
				x = fmax(xv, y.(float32))
			}
			continue
		case float64:
			if isMin {
				x = fmin(xv, y.(float64))
			} else {
				x = fmax(xv, y.(float64))
			}
			continue
		}
		if isMin {
			if concBinop(token.LSS, nil, y, x).(bool) {
				x = y
			}
		} else if concBinop(token.GTR, nil, y, x).(bool) {
			x = y
		}
	}
	return x
}

func (r *Run) rangeIter(x value) iter {
	switch x := x.(type) {
	case *omap:
		it := &omapIter{m: x, reverse: r.mapReverse}
		if x != nil && r.mapReverse {
			it.pos = len(x.keys) - 1
		}
		return it
	case string:
		return &strIter{in: r, b: strBytes(x)}
	case *symstr:
		return &strIter{in: r, b: x.b}
	}
	panic(fmt.Sprintf("cannot range over %T", x))
}

// next decodes the next rune. A symbolic byte forks into "ASCII" (< 0x80) or
// is concretised together with its continuation bytes.
func (it *strIter) next() tuple {
	r := it.in
	if it.pos >= len(it.b) {
		return tuple{false, nil, nil}
	}
	i := it.pos
	b0 := it.b[i]
	if s, ok := b0.(Sym); ok {
		ascii := r.ts.Cmp(OpULt, s.T, r.ts.Const(SBV8, 0x80))
		if r.branch(ascii) {
			it.pos++
			return tuple{true, i, symOrConc(r.ts.Resize(s.T, SBV32, false), types.Int32)}
		}
		// non-ASCII lead byte: concretise up to 4 bytes
		var buf []byte
		for j := i; j < len(it.b) && j < i+4; j++ {
			switch b := it.b[j].(type) {
			case uint8:
				buf = append(buf, b)
			case Sym:
				buf = append(buf, byte(r.concretize(b.T, "utf8 byte")))
			}
			if utf8.FullRune(buf) {
				break
			}
		}
		ru, n := utf8.DecodeRune(buf)
		it.pos += n
		return tuple{true, i, ru}
	}
	c := b0.(uint8)
	if c < utf8.RuneSelf {
		it.pos++
		return tuple{true, i, int32(c)}
	}
	var buf []byte
	for j := i; j < len(it.b) && j < i+4; j++ {
		switch b := it.b[j].(type) {
		case uint8:
			buf = append(buf, b)
		case Sym:
			buf = append(buf, byte(r.concretize(b.T, "utf8 byte")))
		}
		if utf8.FullRune(buf) {
			break
		}
	}
	ru, n := utf8.DecodeRune(buf)
	it.pos += n
	return tuple{true, i, ru}
}

// conv converts the value x of type t_src to type t_dst.
func (r *Run) conv(fr *frame, t_dst, t_src types.Type, x value) value {
	ut_src := t_src.Underlying()
	ut_dst := t_dst.Underlying()

	// unsafe.Pointer conversions
	if b, ok := ut_dst.(*types.Basic); ok && b.Kind() == types.UnsafePointer {
		switch x := x.(type) {
		case *value:
			if x == nil {
				return unsafe.Pointer(nil)
			}
			return uptr{x}
		case uptr, unsafe.Pointer:
			return x
		case uintptr:
			if x == 0 {
				return unsafe.Pointer(nil)
			}
		}
		r.inconclusive("unsupported conversion to unsafe.Pointer from %T at %s", x, fr.pos())
	}
	if b, ok := ut_src.(*types.Basic); ok && b.Kind() == types.UnsafePointer {
		switch x := x.(type) {
		case uptr:
			if _, isPtr := ut_dst.(*types.Pointer); isPtr {
				return x.p
			}
		case unsafe.Pointer:
			if _, isPtr := ut_dst.(*types.Pointer); isPtr {
				return zero(t_dst)
			}
			if db, ok := ut_dst.(*types.Basic); ok && db.Kind() == types.Uintptr {
				return uintptr(0)
			}
		}
		r.inconclusive("unsupported conversion from unsafe.Pointer (%T) to %v at %s", x, t_dst, fr.pos())
	}

	switch xs := x.(type) {
	case Sym:
		dk, ok := basicKindOf(t_dst)
		if !ok {
			panic(fmt.Sprintf("conv: Sym to %v", t_dst))
		}
		if dk == types.String {
			// string(rune): concretise
			c := r.concretize(xs.T, "string(int)")
			return string(rune(signExt(c, xs.T.sort.Bits())))
		}
		if dk == types.Float32 {
			r.inconclusive("float32 conversion of a symbolic value at %s", fr.pos())
		}
		if xs.K == types.Float64 {
			if dk == types.Float64 {
				return x
			}
			return symOrConc(r.ts.FToInt(xs.T, kindSort(dk), kindSigned(dk)), dk)
		}
		if dk == types.Float64 {
			return symOrConc(r.ts.IntToF(xs.T, kindSigned(xs.K)), dk)
		}
		if dk == types.Bool || xs.K == types.Bool {
			return Sym{T: xs.T, K: dk}
		}
		return symOrConc(r.ts.Resize(xs.T, kindSort(dk), kindSigned(xs.K)), dk)
	case *symstr:
		switch d := ut_dst.(type) {
		case *types.Slice:
			if d.Elem().Underlying().(*types.Basic).Kind() == types.Byte {
				res := make([]value, len(xs.b))
				copy(res, xs.b)
				return res
			}
			r.inconclusive("[]rune conversion of a symbolic string at %s", fr.pos())
		case *types.Basic:
			if d.Kind() == types.String {
				return x
			}
		}
		panic(fmt.Sprintf("conv: symstr to %v", t_dst))
	case []value:
		// []byte -> string with symbolic bytes?
		if sl, ok := ut_src.(*types.Slice); ok {
			if eb, ok := sl.Elem().Underlying().(*types.Basic); ok && eb.Kind() == types.Byte {
				if db, ok := ut_dst.(*types.Basic); ok && db.Kind() == types.String {
					return mkStr(xs)
				}
			}
		}
	}
	return concConv(t_dst, t_src, x)
}

// sliceToArrayPointer converts the value x of type slice to type t_dst
// a pointer to array and returns the result.
func (r *Run) sliceToArrayPointer(fr *frame, t_dst, t_src types.Type, x value) value {
	if _, ok := t_src.Underlying().(*types.Slice); ok {
		if ptr, ok := t_dst.Underlying().(*types.Pointer); ok {
			if arr, ok := ptr.Elem().Underlying().(*types.Array); ok {
				x := x.([]value)
				if arr.Len() > int64(len(x)) {
					r.targetPanicStr(fr, "runtime error: cannot convert slice to array pointer: length too short")
				}
				if x == nil {
					return zero(t_dst)
				}
				v := value(array(x[:arr.Len()]))
				return &v
			}
		}
	}
	panic(fmt.Sprintf("unsupported conversion: %s  -> %s, dynamic type %T", t_src, t_dst, x))
}


// ---- symbolic indexes into scalar slices/arrays (no forking) ----

type symCell struct {
	elems []value
	idx   *Term // 64-bit index term, known to be in range
}

func scalarElems(xs []value) bool {
	if len(xs) == 0 || len(xs) > 4096 {
		return false
	}
	k := kindOfValue(xs[0])
	if k == types.Invalid || k == types.Float32 {
		return false
	}
	for _, x := range xs {
		if kindOfValue(x) != k {
			return false
		}
	}
	return true
}

// symIndexTerm bounds-checks a symbolic index and returns it as a 64-bit term.
func (r *Run) symIndexTerm(fr *frame, s Sym, length int) *Term {
	t := r.ts.Resize(s.T, SBV64, kindSigned(s.K))
	in := r.ts.Cmp(OpULt, t, r.ts.Const(SBV64, uint64(length)))
	if !r.branch(in) {
		r.targetPanicStr(fr, fmt.Sprintf("runtime error: index out of range [sym] with length %d", length))
	}
	return t
}

// selectTerm builds elems[idx] as a run-compressed if-then-else chain.
func (r *Run) selectTerm(elems []value, idx *Term) value {
	k := kindOfValue(elems[0])
	ts := r.ts
	// runs of equal terms
	type run struct {
		end int // last index of the run
		t   *Term
	}
	var runs []run
	for i, e := range elems {
		t := r.term(e)
		if n := len(runs); n > 0 && runs[n-1].t == t {
			runs[n-1].end = i
		} else {
			runs = append(runs, run{i, t})
		}
	}
	res := runs[len(runs)-1].t
	for i := len(runs) - 2; i >= 0; i-- {
		c := ts.Cmp(OpULe, idx, ts.Const(SBV64, uint64(runs[i].end)))
		res = ts.Ite(c, runs[i].t, res)
	}
	return symOrConc(res, k)
}

func (r *Run) symSelect(fr *frame, elems []value, s Sym) value {
	if !scalarElems(elems) {
		return elems[r.intIndex(fr, s, len(elems), "index")]
	}
	idx := r.symIndexTerm(fr, s, len(elems))
	return r.selectTerm(elems, idx)
}

// symIndexAddr returns a cell standing for elems[idx]; loads see the selected
// value, stores update every element conditionally.
func (r *Run) symIndexAddr(fr *frame, elems []value, s Sym) *value {
	idx := r.symIndexTerm(fr, s, len(elems))
	cell := new(value)
	*cell = r.selectTerm(elems, idx)
	if r.symCells == nil {
		r.symCells = make(map[*value]*symCell)
	}
	r.symCells[cell] = &symCell{elems: elems, idx: idx}
	return cell
}

func (r *Run) symStore(sc *symCell, v value) {
	k := kindOfValue(sc.elems[0])
	vt := r.term(v)
	for i := range sc.elems {
		c := r.ts.Eq(sc.idx, r.ts.Const(SBV64, uint64(i)))
		sc.elems[i] = symOrConc(r.ts.Ite(c, vt, r.term(sc.elems[i])), k)
	}
}
