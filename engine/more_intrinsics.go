package main

func registerMoreIntrinsics(e *Engine) {
	in := e.intrinsics
	nop := func(fr *frame, args []value) value { return nil }
	for _, p := range []string{"github.com/gogo/protobuf/proto", "github.com/golang/protobuf/proto"} {
		for _, f := range []string{"RegisterEnum", "RegisterType", "RegisterFile", "RegisterMapType", "RegisterExtension", "RegisterCustomType"} {
			in[p+"."+f] = nop
		}
	}
}
