package main

import (
	"go/token"
	"go/types"
)

func registerMoreIntrinsics(e *Engine) {
	in := e.intrinsics
	nop := func(fr *frame, args []value) value { return nil }
	// runtime debug settings: defaults
	// maps.clone (runtime linkname): a shallow copy of the map held in an interface
	in["maps.clone"] = func(fr *frame, args []value) value {
		x := args[0].(iface)
		switch m := x.v.(type) {
		case *omap:
			if m == nil {
				return x
			}
			c := newOmap(m.keyType)
			c.keys = append([]value(nil), m.keys...)
			c.vals = make([]value, len(m.vals))
			for i := range m.vals {
				c.vals[i] = copyVal(m.vals[i])
			}
			c.dead = append([]bool(nil), m.dead...)
			c.symk = append([]bool(nil), m.symk...)
			c.nsym, c.n = m.nsym, m.n
			for k, v := range m.idx {
				c.idx[k] = v
			}
			return iface{t: x.t, v: c}
		case map[value]value:
			c := make(map[value]value, len(m))
			for k, v := range m {
				c[k] = copyVal(v)
			}
			return iface{t: x.t, v: c}
		}
		fr.r.inconclusive("maps.clone of %T", x.v)
		return x
	}
	in["(*internal/godebug.Setting).Value"] = func(fr *frame, args []value) value { return "" }
	in["(*internal/godebug.Setting).IncNonDefault"] = nop
	in["(*internal/godebug.Setting).Undocumented"] = func(fr *frame, args []value) value { return false }
	in["crypto/internal/fips140deps/godebug.Value"] = func(fr *frame, args []value) value { return "" }
	in["crypto/internal/boring.Unreachable"] = nop
	in["crypto/internal/boring/sig.StandardCrypto"] = nop
	in["crypto/internal/boring/sig.BoringCrypto"] = nop
	in["crypto/internal/boring/sig.FIPSOnly"] = nop
	// package-level math/rand: every permutation / value is explored
	in["math/rand.Perm"] = func(fr *frame, args []value) value {
		n := int(asInt64(args[0]))
		m := make([]value, n)
		for i := range m {
			m[i] = i
		}
		for i := n - 1; i > 0; i-- {
			j := fr.r.choice(i + 1)
			m[i], m[j] = m[j], m[i]
		}
		return m
	}
	in["math/rand.Shuffle"] = func(fr *frame, args []value) value {
		n := int(asInt64(args[0]))
		for i := n - 1; i > 0; i-- {
			j := fr.r.choice(i + 1)
			fr.r.call(fr, token.NoPos, args[1], []value{i, j})
		}
		return nil
	}
	in["math/rand.Intn"] = func(fr *frame, args []value) value {
		n := int(asInt64(args[0]))
		if n > 16 {
			fr.r.inconclusive("math/rand.Intn(%d): too many alternatives", n)
		}
		return fr.r.choice(n)
	}
	// context.WithValue without the reflectlite comparability check
	in["context.WithValue"] = func(fr *frame, args []value) value {
		r := fr.r
		parent := args[0].(iface)
		if parent.t == nil {
			r.targetPanicStr(fr, "cannot create context from nil parent")
		}
		key := args[1].(iface)
		if key.t == nil {
			r.targetPanicStr(fr, "nil key")
		}
		t := r.eng.namedType("context", "valueCtx")
		cell := new(value)
		*cell = structure{parent, key, args[2]}
		return iface{t: types.NewPointer(t), v: cell}
	}
	for _, p := range []string{"github.com/gogo/protobuf/proto", "github.com/golang/protobuf/proto"} {
		for _, f := range []string{"RegisterEnum", "RegisterType", "RegisterFile", "RegisterMapType", "RegisterExtension", "RegisterCustomType"} {
			in[p+"."+f] = nop
		}
	}
}
