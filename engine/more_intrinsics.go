package main

func registerMoreIntrinsics(e *Engine) {
}
