package main

import "go/types"

func registerMoreIntrinsics(e *Engine) {
	in := e.intrinsics
	// context.WithValue without the reflectlite comparability check
	in["context.WithValue"] = func(fr *frame, args []value) value {
		r := fr.r
		parent := args[0].(iface)
		if parent.t == nil {
			r.targetPanicStr(fr, "cannot create context from nil parent")
		}
		key := args[1].(iface)
		if key.t == nil {
			r.targetPanicStr(fr, "nil key")
		}
		t := r.eng.namedType("context", "valueCtx")
		cell := new(value)
		*cell = structure{parent, key, args[2]}
		return iface{t: types.NewPointer(t), v: cell}
	}
	nop := func(fr *frame, args []value) value { return nil }
	for _, p := range []string{"github.com/gogo/protobuf/proto", "github.com/golang/protobuf/proto"} {
		for _, f := range []string{"RegisterEnum", "RegisterType", "RegisterFile", "RegisterMapType", "RegisterExtension", "RegisterCustomType"} {
			in[p+"."+f] = nop
		}
	}
}
