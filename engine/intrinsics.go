package main

// Intrinsics: functions that are not interpreted from SSA because they have no
// Go body (assembly, linkname), rely on reflection/unsafe, or are part of the
// environment that the harness controls (clock, scheduler, randomness).
// Every hit is counted per run and reported in evidence as trusted base.

import (
	"fmt"
	"go/token"
	"go/types"
	"math"
	"math/rand"
	"strconv"
	"strings"
	"unsafe"

	"golang.org/x/tools/go/ssa"
)

func registerIntrinsics(e *Engine) {
	in := e.intrinsics
	nop := func(fr *frame, args []value) value { return nil }

	// ---- runtime ----
	in["runtime.Callers"] = func(fr *frame, args []value) value { return 0 }
	in["runtime.Caller"] = func(fr *frame, args []value) value { return tuple{uintptr(0), "", 0, false} }
	in["runtime.KeepAlive"] = nop
	in["runtime.SetFinalizer"] = nop
	in["runtime.GC"] = nop
	in["runtime.Gosched"] = func(fr *frame, args []value) value {
		return nil
	}
	in["runtime.NumCPU"] = func(fr *frame, args []value) value { return 4 }
	in["runtime.GOMAXPROCS"] = func(fr *frame, args []value) value { return 4 }
	in["runtime.NumGoroutine"] = func(fr *frame, args []value) value { return 1 }
	in["internal/abi.NoEscape"] = func(fr *frame, args []value) value { return args[0] }
	in["internal/abi.Escape"] = func(fr *frame, args []value) value { return args[0] }
	in["internal/race.Enable"] = nop
	in["internal/race.Disable"] = nop
	in["internal/race.Acquire"] = nop
	in["internal/race.Release"] = nop
	in["internal/race.ReleaseMerge"] = nop
	in["internal/race.Read"] = nop
	in["internal/race.Write"] = nop
	in["internal/race.ReadRange"] = nop
	in["internal/race.WriteRange"] = nop
	in["internal/race.Errors"] = func(fr *frame, args []value) value { return 0 }

	// ---- sync ----
	in["(*sync.Mutex).Lock"] = func(fr *frame, args []value) value { fr.r.mutexLock(fr, args[0].(*value)); return nil }
	in["(*sync.Mutex).Unlock"] = func(fr *frame, args []value) value { fr.r.mutexUnlock(fr, args[0].(*value)); return nil }
	in["(*sync.Mutex).TryLock"] = func(fr *frame, args []value) value {
		m := fr.r.mutexOf(args[0].(*value))
		if m.locked || m.readers > 0 {
			return false
		}
		m.locked = true
		return true
	}
	in["(*sync.RWMutex).Lock"] = in["(*sync.Mutex).Lock"]
	in["(*sync.RWMutex).Unlock"] = in["(*sync.Mutex).Unlock"]
	in["(*sync.RWMutex).RLock"] = func(fr *frame, args []value) value { fr.r.mutexRLock(fr, args[0].(*value)); return nil }
	in["(*sync.RWMutex).RUnlock"] = func(fr *frame, args []value) value { fr.r.mutexRUnlock(fr, args[0].(*value)); return nil }
	in["(*sync.WaitGroup).Add"] = func(fr *frame, args []value) value {
		r := fr.r
		p := args[0].(*value)
		w := r.wgs[p]
		if w == nil {
			w = &wgState{}
			r.wgs[p] = w
		}
		w.n += int(asInt64(args[1]))
		if w.n < 0 {
			r.targetPanicStr(fr, "sync: negative WaitGroup counter")
		}
		return nil
	}
	in["(*sync.WaitGroup).Done"] = func(fr *frame, args []value) value {
		return in["(*sync.WaitGroup).Add"](fr, []value{args[0], -1})
	}
	in["(*sync.WaitGroup).Wait"] = func(fr *frame, args []value) value {
		r := fr.r
		p := args[0].(*value)
		w := r.wgs[p]
		if w == nil {
			return nil
		}
		r.sched.block(fr, r.curThread(fr), func() bool { return w.n == 0 }, "WaitGroup.Wait at "+fr.pos())
		return nil
	}
	in["(*sync.Once).Do"] = func(fr *frame, args []value) value {
		r := fr.r
		p := args[0].(*value)
		o := r.onces[p]
		if o == nil {
			o = &onceState{}
			r.onces[p] = o
		}
		if !o.done {
			o.done = true
			r.call(fr, token.NoPos, args[1], nil)
		}
		return nil
	}
	// sync.Pool hands back the most recently returned object (what the runtime
	// does for a goroutine that stays on its P): code that keeps using a buffer
	// after putting it back shows up as aliasing.
	in["(*sync.Pool).Get"] = func(fr *frame, args []value) value {
		p := args[0].(*value)
		if fr.r.pools != nil {
			if st := fr.r.pools[p]; len(st) > 0 {
				v := st[len(st)-1]
				fr.r.pools[p] = st[:len(st)-1]
				return v
			}
		}
		st := (*p).(structure)
		// field "New" is the last field of sync.Pool
		newFn := st[len(st)-1]
		switch f := newFn.(type) {
		case *ssa.Function:
			if f == nil {
				return iface{}
			}
		}
		return fr.r.call(fr, token.NoPos, newFn, nil)
	}
	in["(*sync.Pool).Put"] = func(fr *frame, args []value) value {
		p := args[0].(*value)
		if fr.r.pools == nil {
			fr.r.pools = map[*value][]value{}
		}
		if len(fr.r.pools[p]) < 8 {
			fr.r.pools[p] = append(fr.r.pools[p], args[1])
		}
		return nil
	}
	in["(*sync.Cond).Broadcast"] = nop
	in["(*sync.Cond).Signal"] = nop

	// ---- sync/atomic ----
	loadFn := func(fr *frame, args []value) value {
		p, _ := args[0].(*value)
		if p == nil {
			fr.r.targetPanicStr(fr, "runtime error: invalid memory address or nil pointer dereference")
		}
		fr.r.preemptPoint(fr)
		return *p
	}
	storeFn := func(fr *frame, args []value) value {
		p, _ := args[0].(*value)
		if p == nil {
			fr.r.targetPanicStr(fr, "runtime error: invalid memory address or nil pointer dereference")
		}
		fr.r.preemptPoint(fr)
		*p = args[1]
		return nil
	}
	addFn := func(fr *frame, args []value) value {
		p := args[0].(*value)
		fr.r.preemptPoint(fr)
		*p = fr.r.binop(fr, token.ADD, nil, *p, args[1])
		return *p
	}
	swapFn := func(fr *frame, args []value) value {
		p := args[0].(*value)
		fr.r.preemptPoint(fr)
		old := *p
		*p = args[1]
		return old
	}
	casFn := func(fr *frame, args []value) value {
		p := args[0].(*value)
		r := fr.r
		r.preemptPoint(fr)
		eq := r.eqValue(nil, *p, args[1])
		if r.branch(eq) {
			*p = args[2]
			return true
		}
		return false
	}
	andFn := func(fr *frame, args []value) value {
		p := args[0].(*value)
		old := *p
		*p = fr.r.binop(fr, token.AND, nil, *p, args[1])
		return old
	}
	orFn := func(fr *frame, args []value) value {
		p := args[0].(*value)
		old := *p
		*p = fr.r.binop(fr, token.OR, nil, *p, args[1])
		return old
	}
	for _, t := range []string{"Int32", "Int64", "Uint32", "Uint64", "Uintptr", "Pointer"} {
		in["sync/atomic.Load"+t] = loadFn
		in["sync/atomic.Store"+t] = storeFn
		in["sync/atomic.Swap"+t] = swapFn
		in["sync/atomic.CompareAndSwap"+t] = casFn
		if t != "Pointer" {
			in["sync/atomic.Add"+t] = addFn
			in["sync/atomic.And"+t] = andFn
			in["sync/atomic.Or"+t] = orFn
		}
	}
	// atomic.Value: keep the stored interface in a side table
	in["(*sync/atomic.Value).Load"] = func(fr *frame, args []value) value {
		if v, ok := fr.r.hostval[args[0].(*value)]; ok {
			return v
		}
		return iface{}
	}
	in["(*sync/atomic.Value).Store"] = func(fr *frame, args []value) value {
		if args[1].(iface).t == nil {
			fr.r.targetPanicStr(fr, "sync/atomic: store of nil value into Value")
		}
		fr.r.hostval[args[0].(*value)] = args[1]
		return nil
	}
	in["(*sync/atomic.Value).Swap"] = func(fr *frame, args []value) value {
		p := args[0].(*value)
		old, ok := fr.r.hostval[p]
		fr.r.hostval[p] = args[1]
		if !ok {
			return iface{}
		}
		return old
	}
	in["(*sync/atomic.Value).CompareAndSwap"] = func(fr *frame, args []value) value {
		p := args[0].(*value)
		old, ok := fr.r.hostval[p]
		if !ok {
			old = iface{}
		}
		if fr.r.branch(fr.r.eqValue(nil, old, args[1])) {
			fr.r.hostval[p] = args[2]
			return true
		}
		return false
	}

	// ---- errors / fmt ----
	in["errors.Is"] = func(fr *frame, args []value) value { return fr.r.errorsIs(fr, args[0].(iface), args[1].(iface)) }
	in["errors.As"] = func(fr *frame, args []value) value { return fr.r.errorsAs(fr, args[0].(iface), args[1].(iface)) }
	in["fmt.Errorf"] = func(fr *frame, args []value) value { return fr.r.fmtErrorf(fr, args[0], args[1].([]value)) }
	in["fmt.Sprintf"] = func(fr *frame, args []value) value { return fr.r.sprintf(fr, argStrLoose(args[0]), args[1].([]value)) }
	in["fmt.Sprint"] = func(fr *frame, args []value) value { return fr.r.sprint(fr, args[0].([]value), false) }
	in["fmt.Sprintln"] = func(fr *frame, args []value) value { return fr.r.sprint(fr, args[0].([]value), true) }
	in["fmt.Println"] = func(fr *frame, args []value) value { return tuple{0, iface{}} }
	in["fmt.Printf"] = func(fr *frame, args []value) value { return tuple{0, iface{}} }
	in["fmt.Fprintf"] = func(fr *frame, args []value) value { return tuple{0, iface{}} }
	in["fmt.Fprintln"] = func(fr *frame, args []value) value { return tuple{0, iface{}} }
	in["fmt.Fprint"] = func(fr *frame, args []value) value { return tuple{0, iface{}} }

	// ---- sort ----
	in["sort.Slice"] = func(fr *frame, args []value) value { fr.r.sortSlice(fr, args[0].(iface), args[1]); return nil }
	in["sort.SliceStable"] = in["sort.Slice"]
	in["sort.SliceIsSorted"] = func(fr *frame, args []value) value {
		r := fr.r
		s := args[0].(iface).v.([]value)
		for i := len(s) - 1; i > 0; i-- {
			if r.truth(r.call(fr, token.NoPos, args[1], []value{i, i - 1})) {
				return false
			}
		}
		return true
	}

	// ---- internal/bytealg ----
	in["internal/bytealg.IndexByteString"] = func(fr *frame, args []value) value {
		return fr.r.indexByte(strBytes(args[0]), args[1])
	}
	in["internal/bytealg.IndexByte"] = func(fr *frame, args []value) value {
		return fr.r.indexByte(args[0].([]value), args[1])
	}
	in["internal/bytealg.LastIndexByteString"] = func(fr *frame, args []value) value {
		return fr.r.lastIndexByte(strBytes(args[0]), args[1])
	}
	in["internal/bytealg.LastIndexByte"] = func(fr *frame, args []value) value {
		return fr.r.lastIndexByte(args[0].([]value), args[1])
	}
	in["internal/bytealg.CountString"] = func(fr *frame, args []value) value {
		return fr.r.countByte(strBytes(args[0]), args[1])
	}
	in["internal/bytealg.Count"] = func(fr *frame, args []value) value {
		return fr.r.countByte(args[0].([]value), args[1])
	}
	in["internal/bytealg.Equal"] = func(fr *frame, args []value) value {
		r := fr.r
		a, b := args[0].([]value), args[1].([]value)
		if len(a) != len(b) {
			return false
		}
		res := r.ts.Bool(true)
		for i := range a {
			res = r.ts.And(res, r.ts.Eq(r.term(a[i]), r.term(b[i])))
		}
		return r.boolVal(res)
	}
	in["internal/bytealg.Compare"] = func(fr *frame, args []value) value {
		r := fr.r
		a, b := mkStr(args[0].([]value)), mkStr(args[1].([]value))
		if r.truth(r.boolVal(r.strLess(a, b, false))) {
			return -1
		}
		if r.truth(r.boolVal(r.strEq(a, b))) {
			return 0
		}
		return 1
	}
	in["internal/bytealg.IndexString"] = func(fr *frame, args []value) value {
		return fr.r.indexSub(strBytes(args[0]), strBytes(args[1]))
	}
	in["internal/bytealg.Index"] = func(fr *frame, args []value) value {
		return fr.r.indexSub(args[0].([]value), args[1].([]value))
	}
	in["internal/bytealg.MakeNoZero"] = func(fr *frame, args []value) value {
		n := int(asInt64(args[0]))
		s := make([]value, n)
		for i := range s {
			s[i] = uint8(0)
		}
		return s
	}
	in["internal/stringslite.Index"] = func(fr *frame, args []value) value {
		return fr.r.indexSub(strBytes(args[0]), strBytes(args[1]))
	}
	in["strings.Index"] = in["internal/stringslite.Index"]
	in["internal/bytealg.Cutover"] = func(fr *frame, args []value) value { return 1 << 30 }
	in["(*strings.Builder).String"] = func(fr *frame, args []value) value {
		p := args[0].(*value)
		st := (*p).(structure)
		return mkStr(st[1].([]value))
	}
	in["(*strings.Builder).copyCheck"] = nop
	in["strings.Clone"] = func(fr *frame, args []value) value { return args[0] }
	in["strings.Compare"] = func(fr *frame, args []value) value {
		r := fr.r
		if r.truth(r.boolVal(r.strLess(args[0], args[1], false))) {
			return -1
		}
		if r.truth(r.boolVal(r.strEq(args[0], args[1]))) {
			return 0
		}
		return 1
	}
	in["cmp.Compare[string]"] = in["strings.Compare"]
	in["internal/stringslite.Clone"] = in["strings.Clone"]

	// ---- strconv (concrete fast paths) ----
	in["strconv.Itoa"] = func(fr *frame, args []value) value {
		if s, ok := args[0].(Sym); ok {
			return strconv.Itoa(int(int64(fr.r.concretize(s.T, "strconv.Itoa"))))
		}
		return strconv.Itoa(args[0].(int))
	}
	in["strconv.Atoi"] = func(fr *frame, args []value) value {
		s, ok := concreteString(args[0])
		if !ok {
			fr.r.inconclusive("strconv.Atoi on symbolic string")
		}
		i, err := strconv.Atoi(s)
		if err != nil {
			return tuple{i, fr.r.mkError(err.Error())}
		}
		return tuple{i, iface{}}
	}
	in["strconv.FormatUint"] = func(fr *frame, args []value) value {
		return strconv.FormatUint(toBits(fr.r.concValue(args[0], "FormatUint")), int(asInt64(args[1])))
	}
	in["strconv.FormatInt"] = func(fr *frame, args []value) value {
		return strconv.FormatInt(int64(toBits(fr.r.concValue(args[0], "FormatInt"))), int(asInt64(args[1])))
	}

	// ---- math ----
	f1 := func(f func(float64) float64) intrinsicFn {
		return func(fr *frame, args []value) value {
			x, ok := args[0].(float64)
			if !ok {
				fr.r.inconclusive("math function on symbolic float at %s", fr.pos())
			}
			return f(x)
		}
	}
	in["math.Ceil"] = f1(math.Ceil)
	in["math.Floor"] = f1(math.Floor)
	in["math.Trunc"] = f1(math.Trunc)
	in["math.Sqrt"] = f1(math.Sqrt)
	in["math.Abs"] = f1(math.Abs)
	in["math.Log"] = f1(math.Log)
	in["math.Log2"] = f1(math.Log2)
	in["math.Exp"] = f1(math.Exp)
	in["math.Round"] = f1(math.Round)
	in["math.Pow"] = func(fr *frame, args []value) value { return math.Pow(args[0].(float64), args[1].(float64)) }
	in["math.Mod"] = func(fr *frame, args []value) value { return math.Mod(args[0].(float64), args[1].(float64)) }
	in["math.Max"] = func(fr *frame, args []value) value { return math.Max(args[0].(float64), args[1].(float64)) }
	in["math.Min"] = func(fr *frame, args []value) value { return math.Min(args[0].(float64), args[1].(float64)) }
	in["math.Inf"] = func(fr *frame, args []value) value { return math.Inf(int(asInt64(args[0]))) }
	in["math.IsNaN"] = func(fr *frame, args []value) value {
		if s, ok := args[0].(Sym); ok {
			return fr.r.boolVal(fr.r.ts.mk(OpFIsNaN, SBool, 0, "", s.T))
		}
		return math.IsNaN(args[0].(float64))
	}
	in["math.IsInf"] = func(fr *frame, args []value) value {
		return math.IsInf(args[0].(float64), int(asInt64(args[1])))
	}
	in["math.Float64bits"] = func(fr *frame, args []value) value { return math.Float64bits(args[0].(float64)) }
	in["math.Float64frombits"] = func(fr *frame, args []value) value { return math.Float64frombits(args[0].(uint64)) }
	in["math.Float32bits"] = func(fr *frame, args []value) value { return math.Float32bits(args[0].(float32)) }
	in["math.Float32frombits"] = func(fr *frame, args []value) value { return math.Float32frombits(args[0].(uint32)) }

	// ---- math/rand: seeded sources are the host's real generator ----
	in["math/rand.NewSource"] = func(fr *frame, args []value) value {
		r := fr.r
		t := r.eng.namedType("math/rand", "rngSource")
		cell := new(value)
		*cell = zero(t)
		if _, symbolic := args[0].(Sym); symbolic {
			// unknown seed (e.g. derived from the clock): the generator's
			// output is arbitrary - every draw is a fresh solver variable
			r.hostval[cell] = &hostObj{kind: "rand-sym"}
		} else {
			seed := int64(toBits(args[0]))
			r.hostval[cell] = &hostObj{kind: "rand", data: rand.NewSource(seed).(rand.Source64)}
		}
		return iface{t: types.NewPointer(t), v: cell}
	}
	rngOf := func(fr *frame, p value) rand.Source64 {
		h, ok := fr.r.hostval[p.(*value)]
		if !ok {
			fr.r.inconclusive("rngSource without host state at %s", fr.pos())
		}
		if h.(*hostObj).kind == "rand-sym" {
			return nil
		}
		return h.(*hostObj).data.(rand.Source64)
	}
	in["(*math/rand.rngSource).Int63"] = func(fr *frame, args []value) value {
		if g := rngOf(fr, args[0]); g != nil {
			return g.Int63()
		}
		v := fr.r.freshInput("rng_unseeded", types.Uint64, "u64").(Sym)
		return symOrConc(fr.r.ts.Bin(OpLShr, v.T, fr.r.ts.Const(SBV64, 1)), types.Int64)
	}
	in["(*math/rand.rngSource).Uint64"] = func(fr *frame, args []value) value {
		if g := rngOf(fr, args[0]); g != nil {
			return g.Uint64()
		}
		return fr.r.freshInput("rng_unseeded", types.Uint64, "u64")
	}
	in["(*math/rand.rngSource).Seed"] = func(fr *frame, args []value) value {
		if g := rngOf(fr, args[0]); g != nil {
			g.Seed(int64(toBits(fr.r.concValue(args[1], "rand seed"))))
		}
		return nil
	}

	registerTimeIntrinsics(e)
	registerMoreIntrinsics(e)
	registerFsIntrinsics(e)
}

func argStrLoose(v value) string {
	if s, ok := concreteString(v); ok {
		return s
	}
	return "?"
}

func concreteString(v value) (string, bool) {
	switch v := v.(type) {
	case string:
		return v, true
	case *symstr:
		return v.concrete()
	}
	return "", false
}

// truth turns a bool-or-Sym into a Go bool (forking when symbolic).
func (r *Run) truth(v value) bool {
	switch v := v.(type) {
	case bool:
		return v
	case Sym:
		return r.branch(v.T)
	}
	panic(fmt.Sprintf("truth: %T", v))
}

// concValue concretises a scalar.
func (r *Run) concValue(v value, why string) value {
	if s, ok := v.(Sym); ok {
		return fromBits(s.K, r.concretize(s.T, why))
	}
	return v
}

func (r *Run) preemptPoint(fr *frame) {
	if r.preemptBudget <= 0 {
		return
	}
	th := r.curThread(fr)
	// candidates: other runnable threads
	var cands []*thread
	for _, t := range r.sched.threads {
		if t != th && t.runnable() {
			cands = append(cands, t)
		}
	}
	if len(cands) == 0 {
		return
	}
	c := r.choice(len(cands) + 1)
	if c == 0 {
		return
	}
	r.preemptBudget--
	n := cands[c-1]
	r.sched.handOver(th, n, true)
}

// ---- bytes helpers over possibly symbolic bytes ----

func (r *Run) indexByte(s []value, c value) value {
	for i, b := range s {
		if r.truth(r.boolVal(r.ts.Eq(r.term(b), r.term(c)))) {
			return i
		}
	}
	return -1
}

func (r *Run) lastIndexByte(s []value, c value) value {
	for i := len(s) - 1; i >= 0; i-- {
		if r.truth(r.boolVal(r.ts.Eq(r.term(s[i]), r.term(c)))) {
			return i
		}
	}
	return -1
}

func (r *Run) countByte(s []value, c value) value {
	n := 0
	for _, b := range s {
		if r.truth(r.boolVal(r.ts.Eq(r.term(b), r.term(c)))) {
			n++
		}
	}
	return n
}

func (r *Run) indexSub(s, sub []value) value {
	if len(sub) == 0 {
		return 0
	}
	for i := 0; i+len(sub) <= len(s); i++ {
		eq := r.ts.Bool(true)
		for j := range sub {
			eq = r.ts.And(eq, r.ts.Eq(r.term(s[i+j]), r.term(sub[j])))
		}
		if r.truth(r.boolVal(eq)) {
			return i
		}
	}
	return -1
}

// ---- sort.Slice: insertion sort with the interpreted less ----

func (r *Run) sortSlice(fr *frame, x iface, less value) {
	s, ok := x.v.([]value)
	if !ok {
		panic(fmt.Sprintf("sort.Slice on %T", x.v))
	}
	for i := 1; i < len(s); i++ {
		for j := i; j > 0; j-- {
			if !r.truth(r.call(fr, token.NoPos, less, []value{j, j - 1})) {
				break
			}
			s[j], s[j-1] = s[j-1], s[j]
		}
	}
}

// ---- errors ----

// mkError builds an *errors.errorString.
func (r *Run) mkError(msg string) value {
	t := r.eng.namedType("errors", "errorString")
	if t == nil {
		r.inconclusive("errors package not loaded")
	}
	cell := new(value)
	*cell = structure{msg}
	return iface{t: types.NewPointer(t), v: cell}
}

func (r *Run) mkWrapError(msg value, inner iface) value {
	t := r.eng.namedType("fmt", "wrapError")
	if t == nil {
		r.inconclusive("fmt package not loaded")
	}
	cell := new(value)
	*cell = structure{msg, inner}
	return iface{t: types.NewPointer(t), v: cell}
}

func (r *Run) methodOf(t types.Type, name string) *ssa.Function {
	ms := r.eng.prog.MethodSets.MethodSet(t)
	for i := 0; i < ms.Len(); i++ {
		sel := ms.At(i)
		if sel.Obj().Name() == name {
			return r.eng.prog.MethodValue(sel)
		}
	}
	return nil
}

func (r *Run) tryErrorString(e iface) (string, bool) {
	if e.t == nil {
		return "<nil>", true
	}
	m := r.methodOf(e.t, "Error")
	if m == nil {
		m = r.methodOf(e.t, "String")
	}
	if m == nil {
		return "", false
	}
	res := r.call(nil, token.NoPos, m, []value{e.v})
	s, ok := concreteString(res)
	if !ok {
		return "?", true
	}
	return s, true
}

func (r *Run) unwrapErr(fr *frame, e iface) (iface, []iface) {
	if e.t == nil {
		return iface{}, nil
	}
	m := r.methodOf(e.t, "Unwrap")
	if m == nil {
		return iface{}, nil
	}
	sig := m.Signature
	if sig.Params().Len() != 0 || sig.Results().Len() != 1 {
		return iface{}, nil
	}
	res := r.call(fr, token.NoPos, m, []value{e.v})
	switch res := res.(type) {
	case iface:
		return res, nil
	case []value:
		var out []iface
		for _, x := range res {
			out = append(out, x.(iface))
		}
		return iface{}, out
	}
	return iface{}, nil
}

func comparableType(t types.Type) bool { return types.Comparable(t) }

func (r *Run) errorsIs(fr *frame, err, target iface) value {
	if err.t == nil || target.t == nil {
		return r.boolVal(r.eqValue(nil, err, target))
	}
	isComparable := comparableType(target.t)
	var walk func(e iface) bool
	walk = func(e iface) bool {
		for depth := 0; depth < 64; depth++ {
			if e.t == nil {
				return false
			}
			if isComparable && sameType(e.t, target.t) && r.truth(r.boolVal(r.eqValue(e.t, e.v, target.v))) {
				return true
			}
			if m := r.methodOf(e.t, "Is"); m != nil && m.Signature.Params().Len() == 1 && m.Signature.Results().Len() == 1 {
				if r.truth(r.call(fr, token.NoPos, m, []value{e.v, target})) {
					return true
				}
			}
			one, many := r.unwrapErr(fr, e)
			if many != nil {
				for _, x := range many {
					if walk(x) {
						return true
					}
				}
				return false
			}
			e = one
		}
		return false
	}
	return walk(err)
}

func (r *Run) errorsAs(fr *frame, err, target iface) value {
	if target.t == nil {
		r.targetPanicStr(fr, "errors: target cannot be nil")
	}
	pt, ok := target.t.Underlying().(*types.Pointer)
	if !ok {
		r.targetPanicStr(fr, "errors: target must be a non-nil pointer")
	}
	tt := pt.Elem()
	cell := target.v.(*value)
	var walk func(e iface) bool
	walk = func(e iface) bool {
		for depth := 0; depth < 64; depth++ {
			if e.t == nil {
				return false
			}
			if it, isIface := tt.Underlying().(*types.Interface); isIface {
				if types.Implements(e.t, it) {
					*cell = e
					return true
				}
			} else if types.Identical(e.t, tt) {
				*cell = e.v
				return true
			}
			if m := r.methodOf(e.t, "As"); m != nil && m.Signature.Params().Len() == 1 {
				if r.truth(r.call(fr, token.NoPos, m, []value{e.v, target})) {
					return true
				}
			}
			one, many := r.unwrapErr(fr, e)
			if many != nil {
				for _, x := range many {
					if walk(x) {
						return true
					}
				}
				return false
			}
			e = one
		}
		return false
	}
	return walk(err)
}

// ---- fmt ----

// hostArg converts an engine value to a Go value that fmt can print.
func (r *Run) hostArg(fr *frame, v value) any {
	switch v := v.(type) {
	case iface:
		if v.t == nil {
			return nil
		}
		if _, symbolic := v.v.(Sym); symbolic {
			return fmtString("?")
		}
		// error / Stringer
		if types.Implements(v.t, errorIface) || r.methodOf(v.t, "Error") != nil {
			if s, ok := r.tryErrorString(v); ok {
				return fmtString(s)
			}
		}
		if m := r.methodOf(v.t, "String"); m != nil && m.Signature.Params().Len() == 0 && m.Signature.Results().Len() == 1 {
			res := r.call(fr, token.NoPos, m, []value{v.v})
			if s, ok := concreteString(res); ok {
				return fmtString(s)
			}
			return fmtString("?")
		}
		return r.hostArg(fr, v.v)
	case Sym:
		return fmtString("?")
	case *symstr:
		if s, ok := v.concrete(); ok {
			return s
		}
		return "?"
	case []value:
		out := make([]any, len(v))
		for i := range v {
			out[i] = r.hostArg(fr, v[i])
		}
		return out
	case structure:
		out := make([]any, len(v))
		for i := range v {
			out[i] = r.hostArg(fr, v[i])
		}
		return out
	case array:
		out := make([]any, len(v))
		for i := range v {
			out[i] = r.hostArg(fr, v[i])
		}
		return out
	case *value:
		if v == nil {
			return nil
		}
		return fmtString("&" + toString(*v))
	case *omap, *channel, *closure, *ssa.Function, *hostFunc, *hostObj, uptr, unsafe.Pointer:
		return fmtString(fmt.Sprintf("%T", v))
	}
	return v
}

type fmtString string

func (s fmtString) Format(f fmt.State, verb rune) {
	switch verb {
	case 'q':
		fmt.Fprintf(f, "%q", string(s))
	default:
		f.Write([]byte(s))
	}
}

var errorIface = types.Universe.Lookup("error").Type().Underlying().(*types.Interface)

func (r *Run) sprintf(fr *frame, format string, args []value) value {
	hargs := make([]any, len(args))
	for i, a := range args {
		hargs[i] = r.hostArg(fr, a)
	}
	format = strings.ReplaceAll(format, "%w", "%v")
	return fmt.Sprintf(format, hargs...)
}

func (r *Run) sprint(fr *frame, args []value, ln bool) value {
	hargs := make([]any, len(args))
	for i, a := range args {
		hargs[i] = r.hostArg(fr, a)
	}
	if ln {
		return fmt.Sprintln(hargs...)
	}
	return fmt.Sprint(hargs...)
}

func (r *Run) fmtErrorf(fr *frame, format value, args []value) value {
	f := argStrLoose(format)
	msg := r.sprintf(fr, f, args)
	// find the operand of %w
	wi := -1
	argi := 0
	for i := 0; i < len(f); i++ {
		if f[i] != '%' {
			continue
		}
		i++
		for i < len(f) && strings.ContainsRune("+-# 0123456789.[]*", rune(f[i])) {
			i++
		}
		if i >= len(f) {
			break
		}
		if f[i] == '%' {
			continue
		}
		if f[i] == 'w' && wi < 0 {
			wi = argi
		}
		argi++
	}
	if wi >= 0 && wi < len(args) {
		if inner, ok := args[wi].(iface); ok && inner.t != nil {
			return r.mkWrapError(msg, inner)
		}
	}
	return r.mkError(msg.(string))
}
