// Copyright 2013 The Go Authors. All rights reserved.
// Use of this source code is governed by a BSD-style
// license that can be found in the LICENSE.x-tools file.
//
// Derived from golang.org/x/tools/go/ssa/interp (value.go); extended with
// symbolic scalars, symbolic strings, ordered maps and engine channels.

package main

// Values
//
// All interpreter values are "boxed" in the empty interface, value.
// The range of possible dynamic types within value are:
//
// - bool
// - numbers (all built-in int/float/complex types are distinguished)
// - Sym --- a symbolic scalar (bool, integer of any width, float64): an SMT term
// - string
// - *symstr --- a string with (possibly) symbolic bytes and concrete length
// - *omap --- maps (insertion ordered association lists)
// - *channel --- channels
// - []value --- slices
// - iface --- interfaces.
// - structure --- structs.  Fields are ordered and accessed by numeric indices.
// - array --- arrays.
// - *value --- pointers.  Careful: *value is a distinct type from *array etc.
// - *ssa.Function \
//   *ssa.Builtin   } --- functions.  A nil 'func' is always of type *ssa.Function.
//   *closure      /
// - tuple --- as returned by Return, Next, "value,ok" modes, etc.
// - iter --- iterators from 'range' over map or string.
// - bad --- a poison pill for locals that have gone out of scope.
// - **deferred -- the address of a frame's defer stack for a Defer._Stack.
// - *hostObj --- an opaque host-modelled object (mutex state, context, timer ...)

import (
	"bytes"
	"fmt"
	"go/types"
	"unsafe"

	"golang.org/x/tools/go/ssa"
)

type value any

type tuple []value

type array []value

type iface struct {
	t types.Type // never an "untyped" type
	v value
}

type structure []value

// Sym is a symbolic scalar of basic kind K.
type Sym struct {
	T *Term
	K types.BasicKind
}

// symstr is a string of concrete length whose bytes may be symbolic.
// Elements are uint8 or Sym{K: Uint8}.
type symstr struct {
	b []value
}

// For map, array, *array, slice, string or channel.
type iter interface {
	// next returns a Tuple (key, value, ok).
	next() tuple
}

type closure struct {
	Fn  *ssa.Function
	Env []value
}

type bad struct{}

// hostObj is an engine-side object reachable from interpreted code through a
// pointer-typed or struct-typed slot (e.g. the state behind a context.Context).
type hostObj struct {
	kind string
	data any
}

// ---- kinds and sorts ----

func kindSort(k types.BasicKind) Sort {
	switch k {
	case types.Bool, types.UntypedBool:
		return SBool
	case types.Int8, types.Uint8:
		return SBV8
	case types.Int16, types.Uint16:
		return SBV16
	case types.Int32, types.Uint32, types.UntypedRune:
		return SBV32
	case types.Int, types.Uint, types.Int64, types.Uint64, types.Uintptr, types.UntypedInt:
		return SBV64
	case types.Float64, types.UntypedFloat:
		return SFP64
	}
	panic(fmt.Sprintf("kindSort: kind %v", k))
}

func kindSigned(k types.BasicKind) bool {
	switch k {
	case types.Int, types.Int8, types.Int16, types.Int32, types.Int64, types.UntypedInt, types.UntypedRune:
		return true
	}
	return false
}

func basicKindOf(t types.Type) (types.BasicKind, bool) {
	if b, ok := t.Underlying().(*types.Basic); ok {
		k := b.Kind()
		if b.Info()&types.IsUntyped != 0 {
			k = types.Default(b).(*types.Basic).Kind()
		}
		return k, true
	}
	return 0, false
}

// kindOfValue returns the basic kind of a concrete scalar.
func kindOfValue(v value) types.BasicKind {
	switch v := v.(type) {
	case bool:
		return types.Bool
	case int:
		return types.Int
	case int8:
		return types.Int8
	case int16:
		return types.Int16
	case int32:
		return types.Int32
	case int64:
		return types.Int64
	case uint:
		return types.Uint
	case uint8:
		return types.Uint8
	case uint16:
		return types.Uint16
	case uint32:
		return types.Uint32
	case uint64:
		return types.Uint64
	case uintptr:
		return types.Uintptr
	case float64:
		return types.Float64
	case float32:
		return types.Float32
	case Sym:
		return v.K
	}
	return types.Invalid
}

// fromBits builds the concrete Go value of kind k from raw bits.
func fromBits(k types.BasicKind, u uint64) value {
	switch k {
	case types.Bool:
		return u != 0
	case types.Int:
		return int(u)
	case types.Int8:
		return int8(u)
	case types.Int16:
		return int16(u)
	case types.Int32:
		return int32(u)
	case types.Int64:
		return int64(u)
	case types.Uint:
		return uint(u)
	case types.Uint8:
		return uint8(u)
	case types.Uint16:
		return uint16(u)
	case types.Uint32:
		return uint32(u)
	case types.Uint64:
		return u
	case types.Uintptr:
		return uintptr(u)
	case types.Float64:
		return float64frombits(u)
	}
	panic(fmt.Sprintf("fromBits: kind %v", k))
}

// toBits returns the raw bits of a concrete scalar.
func toBits(v value) uint64 {
	switch v := v.(type) {
	case bool:
		if v {
			return 1
		}
		return 0
	case int:
		return uint64(v)
	case int8:
		return uint64(uint8(v))
	case int16:
		return uint64(uint16(v))
	case int32:
		return uint64(uint32(v))
	case int64:
		return uint64(v)
	case uint:
		return uint64(v)
	case uint8:
		return uint64(v)
	case uint16:
		return uint64(v)
	case uint32:
		return uint64(v)
	case uint64:
		return v
	case uintptr:
		return uint64(v)
	case float64:
		return float64bits(v)
	}
	panic(fmt.Sprintf("toBits: %T", v))
}

func isSym(v value) bool {
	_, ok := v.(Sym)
	return ok
}

// symOrConc normalises a term into a value: constants become Go values.
func symOrConc(t *Term, k types.BasicKind) value {
	if t.op == OpConst {
		return fromBits(k, t.c)
	}
	return Sym{T: t, K: k}
}

// ---- equality / hashing of concrete values (for map indexes) ----

// hashString computes the FNV hash of s.
func hashString(s string) int {
	var h uint32
	for i := 0; i < len(s); i++ {
		h ^= uint32(s[i])
		h *= 16777619
	}
	return int(h)
}

// nil-tolerant variant of types.Identical.
func sameType(x, y types.Type) bool {
	if x == nil {
		return y == nil
	}
	return y != nil && types.Identical(x, y)
}

// concKey returns a Go-comparable key for a fully concrete comparable value,
// or ok=false if the value has symbolic parts / is not simple.
func concKey(v value) (any, bool) {
	switch v := v.(type) {
	case bool, int, int8, int16, int32, int64, uint, uint8, uint16, uint32, uint64, uintptr, float32, float64, string, *value, *channel, *omap, unsafe.Pointer:
		return v, true
	case *symstr:
		if s, ok := v.concrete(); ok {
			return s, true
		}
	}
	return nil, false
}

// load returns the value of type T in *addr.
func load(T types.Type, addr *value) value {
	switch T := T.Underlying().(type) {
	case *types.Struct:
		v := (*addr).(structure)
		a := make(structure, len(v))
		for i := range a {
			a[i] = load(T.Field(i).Type(), &v[i])
		}
		return a
	case *types.Array:
		v := (*addr).(array)
		a := make(array, len(v))
		for i := range a {
			a[i] = load(T.Elem(), &v[i])
		}
		return a
	default:
		return *addr
	}
}

// store stores value v of type T into *addr.
func store(T types.Type, addr *value, v value) {
	switch T := T.Underlying().(type) {
	case *types.Struct:
		lhs := (*addr).(structure)
		rhs := v.(structure)
		for i := range lhs {
			store(T.Field(i).Type(), &lhs[i], rhs[i])
		}
	case *types.Array:
		lhs := (*addr).(array)
		rhs := v.(array)
		for i := range lhs {
			store(T.Elem(), &lhs[i], rhs[i])
		}
	default:
		*addr = v
	}
}

// copyVal makes an unaliased copy of aggregates (structs and arrays are values).
func copyVal(v value) value {
	switch v := v.(type) {
	case structure:
		a := make(structure, len(v))
		for i := range v {
			a[i] = copyVal(v[i])
		}
		return a
	case array:
		a := make(array, len(v))
		for i := range v {
			a[i] = copyVal(v[i])
		}
		return a
	}
	return v
}

// Prints in the style of built-in println.
func writeValue(buf *bytes.Buffer, v value) {
	switch v := v.(type) {
	case nil, bool, int, int8, int16, int32, int64, uint, uint8, uint16, uint32, uint64, uintptr, float32, float64, complex64, complex128, string:
		fmt.Fprintf(buf, "%v", v)

	case Sym:
		fmt.Fprintf(buf, "sym<%s>", v.T)

	case *symstr:
		buf.WriteString("symstr[")
		for i, b := range v.b {
			if i > 0 {
				buf.WriteString(" ")
			}
			writeValue(buf, b)
		}
		buf.WriteString("]")

	case *omap:
		buf.WriteString("map[")
		if v != nil {
			sep := ""
			for i := range v.keys {
				if v.dead[i] {
					continue
				}
				buf.WriteString(sep)
				sep = " "
				writeValue(buf, v.keys[i])
				buf.WriteString(":")
				writeValue(buf, v.vals[i])
			}
		}
		buf.WriteString("]")

	case *channel:
		fmt.Fprintf(buf, "chan %p", v)

	case *value:
		if v == nil {
			buf.WriteString("<nil>")
		} else {
			fmt.Fprintf(buf, "%p", v)
		}

	case iface:
		fmt.Fprintf(buf, "(%s, ", v.t)
		writeValue(buf, v.v)
		buf.WriteString(")")

	case structure:
		buf.WriteString("{")
		for i, e := range v {
			if i > 0 {
				buf.WriteString(" ")
			}
			writeValue(buf, e)
		}
		buf.WriteString("}")

	case array:
		buf.WriteString("[")
		for i, e := range v {
			if i > 0 {
				buf.WriteString(" ")
			}
			writeValue(buf, e)
		}
		buf.WriteString("]")

	case []value:
		buf.WriteString("[")
		for i, e := range v {
			if i > 0 {
				buf.WriteString(" ")
			}
			writeValue(buf, e)
		}
		buf.WriteString("]")

	case *ssa.Function, *ssa.Builtin, *closure:
		fmt.Fprintf(buf, "%p", v) // (an address)

	case tuple:
		buf.WriteString("(")
		for i, e := range v {
			if i > 0 {
				buf.WriteString(", ")
			}
			writeValue(buf, e)
		}
		buf.WriteString(")")

	default:
		fmt.Fprintf(buf, "<%T>", v)
	}
}

// Implements printing of Go values in the style of built-in println.
func toString(v value) string {
	var b bytes.Buffer
	writeValue(&b, v)
	return b.String()
}

// ---- symbolic strings ----

func (s *symstr) concrete() (string, bool) {
	bs := make([]byte, len(s.b))
	for i, b := range s.b {
		c, ok := b.(uint8)
		if !ok {
			return "", false
		}
		bs[i] = c
	}
	return string(bs), true
}

// strBytes returns the byte values of a string value (string or *symstr).
func strBytes(v value) []value {
	switch v := v.(type) {
	case string:
		r := make([]value, len(v))
		for i := 0; i < len(v); i++ {
			r[i] = v[i]
		}
		return r
	case *symstr:
		return v.b
	}
	panic(fmt.Sprintf("strBytes: %T", v))
}

func strLen(v value) int {
	switch v := v.(type) {
	case string:
		return len(v)
	case *symstr:
		return len(v.b)
	}
	panic(fmt.Sprintf("strLen: %T", v))
}

// mkStr builds a string value from bytes, concrete when possible.
func mkStr(b []value) value {
	s := &symstr{b: b}
	if c, ok := s.concrete(); ok {
		return c
	}
	cp := make([]value, len(b))
	copy(cp, b)
	return &symstr{b: cp}
}

// ---- ordered maps ----

// omap is an insertion-ordered association list. Keys are pairwise distinct
// under the path condition (an insert with a possibly-equal symbolic key forks).
type omap struct {
	keyType types.Type
	keys    []value
	vals    []value
	dead    []bool
	symk    []bool // key has symbolic parts
	nsym    int
	n       int
	idx     map[any]int // index of concrete keys
}

func newOmap(kt types.Type) *omap {
	return &omap{keyType: kt, idx: make(map[any]int)}
}

func (m *omap) len() int {
	if m == nil {
		return 0
	}
	return m.n
}

type omapIter struct {
	m       *omap
	pos     int
	reverse bool
	end     int // snapshot of len(keys) at start
}

func (it *omapIter) next() tuple {
	m := it.m
	if m == nil {
		return tuple{false, nil, nil}
	}
	if it.reverse {
		for it.pos >= 0 {
			i := it.pos
			it.pos--
			if i < len(m.keys) && !m.dead[i] {
				return tuple{true, m.keys[i], copyVal(m.vals[i])}
			}
		}
		return tuple{false, nil, nil}
	}
	for it.pos < len(m.keys) {
		i := it.pos
		it.pos++
		if !m.dead[i] {
			return tuple{true, m.keys[i], copyVal(m.vals[i])}
		}
	}
	return tuple{false, nil, nil}
}

type strIter struct {
	in  *Run
	b   []value
	pos int
}

// ---- channels (engine objects; blocking is handled by the scheduler) ----

type channel struct {
	cap    int
	buf    []value
	closed bool
	// rendezvous bookkeeping for unbuffered channels
	sendq []*chanWaiter
	recvq []*chanWaiter
	id    int
}

type chanWaiter struct {
	th   *thread
	val  value // value to send / received value
	ok   bool
	done bool
	sel  *selectState // non-nil if part of a select
	idx  int
}

type selectState struct {
	fired bool
	idx   int
	val   value
	ok    bool
}
