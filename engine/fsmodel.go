package main

// A minimal in-engine file system with crash injection, enough for the
// tokens-file protocol (os.Create / Write / Close / Rename / ReadFile / Remove).
//
// Every mutating operation is numbered; with vfFsCrashAt(k) the k-th operation
// does not complete: it takes no effect (a write may leave any of {nothing, half,
// all} of its bytes behind) and the process "dies" there - the engine raises a
// target-level panic that the harness recovers from before it inspects what is
// left on disk. Contents written before the crash point are durable (the model
// has no write-back cache; rename is atomic, as POSIX promises).

import (
	"go/types"
)

type fsFile struct{ data []value }

type fsHandle struct {
	path   string
	closed bool
	file   *fsFile // the inode the handle was opened on
	pos    int     // write offset
}

// fsWriteAt writes b at the handle's offset: bytes already there are
// overwritten, the rest is appended; whatever lies beyond stays.
func fsWriteAt(f *fsFile, h *fsHandle, b []value) {
	for _, x := range b {
		if h.pos < len(f.data) {
			f.data[h.pos] = x
		} else {
			f.data = append(f.data, x)
		}
		h.pos++
	}
}

type fsState struct {
	files   map[string]*fsFile
	handles map[*value]*fsHandle
	ops     int
}

const fsCrashMsg = "vf: simulated process crash inside a file-system operation"

func (r *Run) fsGet() *fsState {
	if r.fs == nil {
		r.fs = &fsState{files: map[string]*fsFile{}, handles: map[*value]*fsHandle{}}
	}
	return r.fs
}

// fsOp numbers a mutating operation and reports whether the process dies in it.
func (r *Run) fsOp() bool {
	fs := r.fsGet()
	k := fs.ops
	fs.ops++
	return r.fsCrashAt >= 0 && k == r.fsCrashAt
}

func (r *Run) fsCrash(fr *frame) {
	r.fsCrashAt = -1
	panic(targetPanic{iface{t: r.eng.runtimeErrorString, v: fsCrashMsg}})
}

func (r *Run) fsPath(v value, what string) string {
	s, ok := concreteString(v)
	if !ok {
		r.inconclusive("%s with a symbolic path", what)
	}
	return s
}

func (r *Run) fsNotExist(op, path string) value {
	return r.mkError(op + " " + path + ": no such file or directory")
}

func registerFsIntrinsics(e *Engine) {
	in := e.intrinsics
	in["os.Create"] = func(fr *frame, args []value) value {
		r := fr.r
		path := r.fsPath(args[0], "os.Create")
		if r.fsOp() {
			r.fsCrash(fr)
		}
		fs := r.fsGet()
		f := &fsFile{}
		fs.files[path] = f
		// a *os.File whose identity is the handle
		res := fr.fn.Signature.Results().At(0).Type().(*types.Pointer).Elem()
		cell := new(value)
		*cell = zero(res)
		fs.handles[cell] = &fsHandle{path: path, file: f}
		return tuple{cell, iface{}}
	}
	// os.OpenFile for writing: O_CREATE / O_TRUNC / O_APPEND / O_EXCL are honoured
	// (Linux flag values); without O_TRUNC an existing file keeps its content and
	// is overwritten from offset 0.
	in["os.OpenFile"] = func(fr *frame, args []value) value {
		r := fr.r
		path := r.fsPath(args[0], "os.OpenFile")
		flag, ok := args[1].(int)
		if !ok {
			r.inconclusive("os.OpenFile with symbolic flags")
		}
		const oCreate, oExcl, oTrunc, oAppend = 0x40, 0x80, 0x200, 0x400
		res := fr.fn.Signature.Results().At(0).Type().(*types.Pointer).Elem()
		fs := r.fsGet()
		f := fs.files[path]
		if f == nil && flag&oCreate == 0 {
			return tuple{(*value)(nil), r.fsNotExist("open", path)}
		}
		if f != nil && flag&oCreate != 0 && flag&oExcl != 0 {
			return tuple{(*value)(nil), r.mkError("open " + path + ": file exists")}
		}
		if r.fsOp() {
			r.fsCrash(fr)
		}
		if f == nil {
			f = &fsFile{}
			fs.files[path] = f
		} else if flag&oTrunc != 0 {
			f.data = nil
		}
		h := &fsHandle{path: path, file: f}
		if flag&oAppend != 0 {
			h.pos = len(f.data)
		}
		cell := new(value)
		*cell = zero(res)
		fs.handles[cell] = h
		return tuple{cell, iface{}}
	}
	handle := func(fr *frame, v value, what string) *fsHandle {
		p, _ := v.(*value)
		h := fr.r.fsGet().handles[p]
		if h == nil {
			fr.r.inconclusive("%s on a file that was not opened through the model", what)
		}
		return h
	}
	in["(*os.File).Write"] = func(fr *frame, args []value) value {
		r := fr.r
		h := handle(fr, args[0], "Write")
		b, _ := args[1].([]value)
		if h.closed {
			return tuple{0, r.mkError("write " + h.path + ": file already closed")}
		}
		f := h.file
		if f == nil {
			f = r.fsGet().files[h.path]
		}
		if f == nil { // renamed or removed meanwhile: the handle still refers to the old inode
			f = &fsFile{}
		}
		if r.fsOp() {
			// the process dies inside the write: nothing, half or all of the bytes are on disk
			n := []int{0, len(b) / 2, len(b)}[r.choice(3)]
			fsWriteAt(f, h, b[:n])
			r.fsCrash(fr)
		}
		fsWriteAt(f, h, b)
		return tuple{len(b), iface{}}
	}
	in["(*os.File).Close"] = func(fr *frame, args []value) value {
		r := fr.r
		h := handle(fr, args[0], "Close")
		if h.closed {
			return r.mkError("close " + h.path + ": file already closed")
		}
		if r.fsOp() {
			r.fsCrash(fr)
		}
		h.closed = true
		return iface{}
	}
	in["(*os.File).Name"] = func(fr *frame, args []value) value {
		return handle(fr, args[0], "Name").path
	}
	in["os.Rename"] = func(fr *frame, args []value) value {
		r := fr.r
		from, to := r.fsPath(args[0], "os.Rename"), r.fsPath(args[1], "os.Rename")
		fs := r.fsGet()
		f := fs.files[from]
		if f == nil {
			return r.fsNotExist("rename", from)
		}
		if r.fsOp() {
			r.fsCrash(fr) // atomic: either not at all (here) or completely (below)
		}
		fs.files[to] = f
		delete(fs.files, from)
		return iface{}
	}
	in["os.Remove"] = func(fr *frame, args []value) value {
		r := fr.r
		path := r.fsPath(args[0], "os.Remove")
		fs := r.fsGet()
		if fs.files[path] == nil {
			return r.fsNotExist("remove", path)
		}
		if r.fsOp() {
			r.fsCrash(fr)
		}
		delete(fs.files, path)
		return iface{}
	}
	in["os.ReadFile"] = func(fr *frame, args []value) value {
		r := fr.r
		path := r.fsPath(args[0], "os.ReadFile")
		f := r.fsGet().files[path]
		if f == nil {
			return tuple{[]value(nil), r.fsNotExist("open", path)}
		}
		return tuple{append([]value{}, f.data...), iface{}}
	}

	// The JSON codec of the tokens file, summarised (encoding/json is reflection
	// driven and not interpretable): an injective encoding in which no proper
	// prefix of a valid document is valid - a marker byte, the count, four bytes
	// per token, a closing marker.
	in["(github.com/grafana/dskit/ring.Tokens).Marshal"] = func(fr *frame, args []value) value {
		r := fr.r
		toks, _ := args[0].([]value)
		out := []value{uint8('{'), uint8(len(toks))}
		for _, t := range toks {
			tt := r.term(t)
			for sh := 24; sh >= 0; sh -= 8 {
				b := r.ts.Resize(r.ts.Bin(OpLShr, tt, r.ts.Const(SBV32, uint64(sh))), SBV8, false)
				out = append(out, symOrConc(b, types.Uint8))
			}
		}
		out = append(out, uint8('}'))
		return tuple{out, iface{}}
	}
	in["(*github.com/grafana/dskit/ring.Tokens).Unmarshal"] = func(fr *frame, args []value) value {
		r := fr.r
		dst := args[0].(*value)
		b, _ := args[1].([]value)
		bad := func() value { return r.mkError("unexpected end of JSON input") }
		conc := func(v value) (uint8, bool) {
			switch x := v.(type) {
			case uint8:
				return x, true
			}
			return 0, false
		}
		if len(b) < 3 {
			return bad()
		}
		open, ok1 := conc(b[0])
		n, ok2 := conc(b[1])
		if !ok1 || !ok2 || open != '{' || len(b) != 3+4*int(n) {
			return bad()
		}
		if cl, ok := conc(b[len(b)-1]); !ok || cl != '}' {
			return bad()
		}
		toks := make([]value, int(n))
		for i := range toks {
			var t *Term
			for j := 0; j < 4; j++ {
				bt := r.ts.Resize(r.term(b[2+4*i+j]), SBV32, false)
				if t == nil {
					t = bt
				} else {
					t = r.ts.Bin(OpBOr, r.ts.Bin(OpShl, t, r.ts.Const(SBV32, 8)), bt)
				}
			}
			toks[i] = symOrConc(t, types.Uint32)
		}
		*dst = toks
		return iface{}
	}
}
