package main

// Cooperative engine threads. Each interpreted goroutine is a host goroutine,
// but only the holder of the baton runs. The running thread keeps the baton
// until it blocks or ends; then the lowest-numbered runnable thread runs.
// A thread in vfQuiesce becomes runnable only when no other thread is.

import (
	"fmt"
	"go/token"
	"go/types"
	"runtime"

	"golang.org/x/tools/go/ssa"
)

type thread struct {
	id        int
	resume    chan struct{}
	done      bool
	waitCond  func() bool // nil = runnable
	quiesce   bool
	blockedAt string
	exited    chan struct{}
}

type scheduler struct {
	r       *Run
	threads []*thread
	cur     *thread
	killed  bool
	fatal   *runAbort
	fatalTP *targetPanic
}

func newScheduler(r *Run) *scheduler {
	s := &scheduler{r: r}
	main := &thread{id: 0, resume: make(chan struct{}, 1)}
	s.threads = []*thread{main}
	s.cur = main
	return s
}

func (s *scheduler) main() *thread { return s.threads[0] }

func (t *thread) runnable() bool {
	if t.done || t.quiesce {
		return false
	}
	return t.waitCond == nil || t.waitCond()
}

// pick selects the next thread to run, or nil on deadlock.
func (s *scheduler) pick() *thread {
	for _, t := range s.threads {
		if t.runnable() {
			return t
		}
	}
	for _, t := range s.threads {
		if !t.done && t.quiesce {
			return t
		}
	}
	return nil
}

// handOver gives the baton to n and parks the calling thread th until it is
// resumed (unless th has ended).
func (s *scheduler) handOver(th, n *thread, park bool) {
	s.cur = n
	n.resume <- struct{}{}
	if park {
		<-th.resume
		s.afterWake(th)
	}
}

func (s *scheduler) afterWake(th *thread) {
	if s.killed {
		panic(runAbort{"killed", ""})
	}
	if th.id == 0 {
		if s.fatalTP != nil {
			tp := *s.fatalTP
			s.fatalTP = nil
			panic(tp)
		}
		if s.fatal != nil {
			f := *s.fatal
			s.fatal = nil
			panic(f)
		}
	}
}

// block parks th until cond holds.
func (s *scheduler) block(fr *frame, th *thread, cond func() bool, what string) {
	if cond() {
		return
	}
	th.waitCond = cond
	th.blockedAt = what
	s.yield(th)
	th.waitCond = nil
	th.blockedAt = ""
}

// yield lets another runnable thread run; returns when th is picked again.
func (s *scheduler) yield(th *thread) {
	n := s.pick()
	if n == th {
		th.quiesce = false
		return
	}
	if n == nil {
		// deadlock: every thread is blocked
		msg := "deadlock: all threads blocked:"
		for _, t := range s.threads {
			if !t.done {
				msg += fmt.Sprintf(" [t%d %s]", t.id, t.blockedAt)
			}
		}
		if th.id == 0 {
			panic(runAbort{"deadlock", msg})
		}
		s.fatal = &runAbort{"deadlock", msg}
		n = s.main()
	}
	n.quiesce = false
	s.handOver(th, n, true)
}

// quiesceWait implements vfQuiesce: run everything else until it blocks.
func (s *scheduler) quiesceWait(th *thread) {
	th.quiesce = true
	s.yield(th)
	th.quiesce = false
}

func (s *scheduler) blockedCount(except *thread) int {
	n := 0
	for _, t := range s.threads {
		if t != except && !t.done && !t.runnable() {
			n++
		}
	}
	return n
}

func (s *scheduler) liveCount(except *thread) int {
	n := 0
	for _, t := range s.threads {
		if t != except && !t.done {
			n++
		}
	}
	return n
}

// spawn starts a new engine thread running fn(args).
func (r *Run) spawn(fr *frame, pos token.Pos, fn value, args []value) {
	s := r.sched
	th := &thread{id: len(s.threads), resume: make(chan struct{}, 1), exited: make(chan struct{})}
	s.threads = append(s.threads, th)
	go func() {
		defer close(th.exited)
		<-th.resume
		defer func() {
			p := recover()
			th.done = true
			if s.killed {
				return
			}
			switch p := p.(type) {
			case nil:
			case runAbort:
				if p.kind == "killed" {
					return
				}
				s.fatal = &p
			case targetPanic:
				s.fatalTP = &p
			case runtime.Error:
				s.fatal = &runAbort{"inconclusive", fmt.Sprintf("engine crash in thread: %v\n%s", p, hostStack())}
			default:
				s.fatal = &runAbort{"inconclusive", fmt.Sprintf("engine panic in thread: %v", p)}
			}
			var n *thread
			if s.fatal != nil || s.fatalTP != nil {
				n = s.main()
				n.quiesce = false
			} else {
				n = s.pick()
				if n == nil {
					msg := "deadlock after thread exit:"
					for _, t := range s.threads {
						if !t.done {
							msg += fmt.Sprintf(" [t%d %s]", t.id, t.blockedAt)
						}
					}
					s.fatal = &runAbort{"deadlock", msg}
					n = s.main()
				}
				n.quiesce = false
			}
			s.cur = n
			n.resume <- struct{}{}
		}()
		if s.killed {
			panic(runAbort{"killed", ""})
		}
		tfr := &frame{r: r, th: th, fn: callerFn(fr)}
		r.callInThread(tfr, th, pos, fn, args)
	}()
}

func callerFn(fr *frame) *ssa.Function {
	if fr != nil {
		return fr.fn
	}
	return nil
}

// callInThread calls fn with a pseudo caller frame bound to th.
func (r *Run) callInThread(pseudo *frame, th *thread, pos token.Pos, fn value, args []value) {
	r.call(pseudo, pos, fn, args)
}

// killAll terminates every remaining thread at the end of a run.
func (s *scheduler) killAll() {
	s.killed = true
	for _, t := range s.threads[1:] {
		if !t.done {
			t.resume <- struct{}{}
		}
		<-t.exited
	}
}

func (r *Run) curThread(fr *frame) *thread {
	if fr != nil && fr.th != nil {
		return fr.th
	}
	return r.sched.cur
}

// ---- channels ----

func (r *Run) chanSend(fr *frame, ch *channel, v value) {
	th := r.curThread(fr)
	if ch == nil {
		r.sched.block(fr, th, func() bool { return false }, "send on nil channel")
	}
	if ch.closed {
		r.targetPanicStr(fr, "send on closed channel")
	}
	// hand over to a waiting receiver
	if w := ch.takeRecv(); w != nil {
		w.val, w.ok, w.done = v, true, true
		if w.sel != nil {
			w.sel.fired, w.sel.idx, w.sel.val, w.sel.ok = true, w.idx, v, true
		}
		return
	}
	if len(ch.buf) < ch.cap {
		ch.buf = append(ch.buf, v)
		return
	}
	w := &chanWaiter{th: th, val: v}
	ch.sendq = append(ch.sendq, w)
	r.sched.block(fr, th, func() bool { return w.done || ch.closed }, fmt.Sprintf("chan send #%d at %s", ch.id, fr.pos()))
	if !w.done && ch.closed {
		r.targetPanicStr(fr, "send on closed channel")
	}
}

func (ch *channel) takeRecv() *chanWaiter {
	for len(ch.recvq) > 0 {
		w := ch.recvq[0]
		ch.recvq = ch.recvq[1:]
		if w.done || (w.sel != nil && w.sel.fired) {
			continue
		}
		return w
	}
	return nil
}

func (ch *channel) takeSend() *chanWaiter {
	for len(ch.sendq) > 0 {
		w := ch.sendq[0]
		ch.sendq = ch.sendq[1:]
		if w.done || (w.sel != nil && w.sel.fired) {
			continue
		}
		return w
	}
	return nil
}

// tryRecv performs a non-blocking receive.
func (ch *channel) tryRecv() (v value, ok bool, ready bool) {
	if len(ch.buf) > 0 {
		v = ch.buf[0]
		ch.buf = ch.buf[1:]
		// a blocked sender can now move its value into the buffer
		if w := ch.takeSend(); w != nil {
			ch.buf = append(ch.buf, w.val)
			w.done = true
			if w.sel != nil {
				w.sel.fired, w.sel.idx = true, w.idx
			}
		}
		return v, true, true
	}
	if w := ch.takeSend(); w != nil {
		w.done = true
		if w.sel != nil {
			w.sel.fired, w.sel.idx = true, w.idx
		}
		return w.val, true, true
	}
	if ch.closed {
		return nil, false, true
	}
	return nil, false, false
}

func (ch *channel) recvReady() bool {
	if len(ch.buf) > 0 || ch.closed {
		return true
	}
	for _, w := range ch.sendq {
		if !w.done && !(w.sel != nil && w.sel.fired) {
			return true
		}
	}
	return false
}

func (ch *channel) sendReady() bool {
	if ch.closed {
		return true // will panic
	}
	if len(ch.buf) < ch.cap {
		return true
	}
	for _, w := range ch.recvq {
		if !w.done && !(w.sel != nil && w.sel.fired) {
			return true
		}
	}
	return false
}

func (r *Run) chanRecv(fr *frame, ch *channel) (value, bool) {
	th := r.curThread(fr)
	if ch == nil {
		r.sched.block(fr, th, func() bool { return false }, "receive on nil channel at "+fr.pos())
	}
	if v, ok, ready := ch.tryRecv(); ready {
		return v, ok
	}
	w := &chanWaiter{th: th}
	ch.recvq = append(ch.recvq, w)
	r.sched.block(fr, th, func() bool { return w.done || ch.recvReady() }, fmt.Sprintf("chan receive #%d at %s", ch.id, fr.pos()))
	if w.done {
		return w.val, w.ok
	}
	w.done = true // withdraw
	v, ok, ready := ch.tryRecv()
	if !ready {
		panic("chanRecv: woke up but not ready")
	}
	return v, ok
}

func (r *Run) chanClose(fr *frame, ch *channel) {
	if ch == nil {
		r.targetPanicStr(fr, "close of nil channel")
	}
	if ch.closed {
		r.targetPanicStr(fr, "close of closed channel")
	}
	ch.closed = true
}

// doSelect implements the Select instruction. Several ready cases are a
// decision point (Go picks at random, so all must be right).
func (r *Run) doSelect(fr *frame, instr *ssa.Select) value {
	th := r.curThread(fr)
	type caseInfo struct {
		ch   *channel
		send bool
		val  value
	}
	cases := make([]caseInfo, len(instr.States))
	for i, st := range instr.States {
		ch, _ := fr.get(st.Chan).(*channel)
		cases[i] = caseInfo{ch: ch, send: st.Dir == types.SendOnly}
		if st.Send != nil {
			cases[i].val = fr.get(st.Send)
			cases[i].send = true
		}
	}
	mkResult := func(chosen int, recv value, recvOk bool) value {
		res := tuple{chosen, recvOk}
		for i, st := range instr.States {
			if !cases[i].send {
				var v value
				if i == chosen && recvOk {
					v = recv
				} else {
					v = zero(st.Chan.Type().Underlying().(*types.Chan).Elem())
				}
				res = append(res, v)
			}
		}
		return res
	}
	readyList := func() []int {
		var ready []int
		for i, c := range cases {
			if c.ch == nil {
				continue
			}
			if c.send && c.ch.sendReady() || !c.send && c.ch.recvReady() {
				ready = append(ready, i)
			}
		}
		return ready
	}
	fire := func(i int) value {
		c := cases[i]
		if c.send {
			r.chanSend(fr, c.ch, c.val)
			return mkResult(i, nil, false)
		}
		v, ok, rdy := c.ch.tryRecv()
		if !rdy {
			panic("select: case not ready")
		}
		return mkResult(i, v, ok)
	}
	for {
		ready := readyList()
		if len(ready) > 0 {
			k := 0
			if len(ready) > 1 {
				k = r.choice(len(ready))
			}
			return fire(ready[k])
		}
		if !instr.Blocking {
			return mkResult(-1, nil, false)
		}
		// park on all channels
		sel := &selectState{}
		var ws []*chanWaiter
		for i, c := range cases {
			if c.ch == nil {
				continue
			}
			w := &chanWaiter{th: th, sel: sel, idx: i, val: c.val}
			ws = append(ws, w)
			if c.send {
				c.ch.sendq = append(c.ch.sendq, w)
			} else {
				c.ch.recvq = append(c.ch.recvq, w)
			}
		}
		r.sched.block(fr, th, func() bool { return sel.fired || len(readyList()) > 0 }, "select at "+fr.pos())
		if sel.fired {
			for _, w := range ws {
				w.done = true
			}
			if cases[sel.idx].send {
				return mkResult(sel.idx, nil, false)
			}
			return mkResult(sel.idx, sel.val, sel.ok)
		}
		// withdraw and retry
		sel.fired = true
		for _, w := range ws {
			w.done = true
		}
	}
}

// ---- sync primitives (host models, keyed by the address of the Go value) ----

type mutexState struct {
	locked  bool
	readers int
	owner   *thread
}

type wgState struct{ n int }

type onceState struct{ done bool }

func (r *Run) mutexOf(p *value) *mutexState {
	m := r.mutexes[p]
	if m == nil {
		m = &mutexState{}
		r.mutexes[p] = m
	}
	return m
}

func (r *Run) mutexLock(fr *frame, p *value) {
	m := r.mutexOf(p)
	if r.preemptLocks {
		r.preemptPoint(fr) // another thread may run before this lock is taken
	}
	th := r.curThread(fr)
	r.sched.block(fr, th, func() bool { return !m.locked && m.readers == 0 }, "mutex lock at "+fr.pos())
	m.locked = true
	m.owner = th
}

func (r *Run) mutexUnlock(fr *frame, p *value) {
	m := r.mutexOf(p)
	if !m.locked {
		panic(targetPanic{iface{t: r.eng.runtimeErrorString, v: "fatal error: sync: unlock of unlocked mutex"}})
	}
	m.locked = false
	m.owner = nil
}

func (r *Run) mutexRLock(fr *frame, p *value) {
	m := r.mutexOf(p)
	if r.preemptLocks {
		r.preemptPoint(fr)
	}
	th := r.curThread(fr)
	r.sched.block(fr, th, func() bool { return !m.locked }, "rwmutex rlock at "+fr.pos())
	m.readers++
}

func (r *Run) mutexRUnlock(fr *frame, p *value) {
	m := r.mutexOf(p)
	if m.readers <= 0 {
		panic(targetPanic{iface{t: r.eng.runtimeErrorString, v: "fatal error: sync: RUnlock of unlocked RWMutex"}})
	}
	m.readers--
}
