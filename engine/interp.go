// Copyright 2013 The Go Authors. All rights reserved.
// Use of this source code is governed by a BSD-style
// license that can be found in the LICENSE.x-tools file.
//
// Derived from golang.org/x/tools/go/ssa/interp (interp.go): the SSA
// interpreter loop, extended so that scalars may be SMT terms, branches on
// symbolic conditions fork the path, and goroutines are cooperative engine
// threads.

package main

import (
	"fmt"
	"go/token"
	"go/types"
	"runtime"
	"slices"
	"strings"

	"golang.org/x/tools/go/ssa"
)

type continuation int

const (
	kNext continuation = iota
	kReturn
	kJump
)

type deferred struct {
	fn    value
	args  []value
	instr *ssa.Defer
	tail  *deferred
}

type frame struct {
	r                *Run
	th               *thread
	caller           *frame
	fn               *ssa.Function
	block, prevBlock *ssa.BasicBlock
	env              map[ssa.Value]value // dynamic values of SSA variables
	locals           []value
	defers           *deferred
	result           value
	panicking        bool
	panic            any
	phitemps         []value // temporaries for parallel phi assignment
	curInstr         ssa.Instruction
}

// hostFunc is a function value implemented by the engine.
type hostFunc struct {
	name string
	fn   func(fr *frame, args []value) value
}

func deref(t types.Type) types.Type {
	if p, ok := t.Underlying().(*types.Pointer); ok {
		return p.Elem()
	}
	panic(fmt.Sprintf("deref: not a pointer: %v", t))
}

func (fr *frame) get(key ssa.Value) value {
	switch key := key.(type) {
	case nil:
		// Hack; simplifies handling of optional attributes
		// such as ssa.Slice.{Low,High}.
		return nil
	case *ssa.Function, *ssa.Builtin:
		return key
	case *ssa.Const:
		return constValue(key)
	case *ssa.Global:
		return fr.r.globalAddr(key)
	}
	if r, ok := fr.env[key]; ok {
		return r
	}
	panic(fmt.Sprintf("get: no value for %T: %v", key, key.Name()))
}

func (fr *frame) pos() string {
	if fr == nil {
		return ""
	}
	var p token.Pos
	if fr.curInstr != nil {
		p = fr.curInstr.Pos()
	}
	f := fr
	for p == token.NoPos && f != nil {
		if f.curInstr != nil {
			p = f.curInstr.Pos()
		}
		if p == token.NoPos {
			p = f.fn.Pos()
		}
		f = f.caller
	}
	return fr.r.eng.prog.Fset.Position(p).String() + " in " + fr.fn.String()
}

// stack renders the interpreted call stack (for diagnostics).
func (fr *frame) stack() string {
	var sb strings.Builder
	for f := fr; f != nil; f = f.caller {
		var p token.Pos
		if f.curInstr != nil {
			p = f.curInstr.Pos()
		}
		fmt.Fprintf(&sb, "  %s (%s)\n", f.fn.String(), f.r.eng.prog.Fset.Position(p))
	}
	return sb.String()
}

// runDefer runs a deferred call d.
// It always returns normally, but may set or clear fr.panic.
func (fr *frame) runDefer(d *deferred) {
	var ok bool
	defer func() {
		if !ok {
			// Deferred call created a new state of panic.
			p := recover()
			if ra, isAbort := p.(runAbort); isAbort {
				panic(ra)
			}
			if _, isRt := p.(runtime.Error); isRt {
				panic(p)
			}
			fr.panicking = true
			fr.panic = p
		}
	}()
	fr.r.call(fr, d.instr.Pos(), d.fn, d.args)
	ok = true
}

// runDefers executes fr's deferred function calls in LIFO order.
func (fr *frame) runDefers() {
	for d := fr.defers; d != nil; d = d.tail {
		fr.runDefer(d)
	}
	fr.defers = nil
	if fr.panicking {
		panic(fr.panic) // new panic, or still panicking
	}
}

// lookupMethod returns the method set for type typ.
func (r *Run) lookupMethod(typ types.Type, meth *types.Func) *ssa.Function {
	return r.eng.prog.LookupMethod(typ, meth.Pkg(), meth.Name())
}

func (r *Run) targetPanicStr(fr *frame, msg string) {
	panic(targetPanic{iface{t: r.eng.runtimeErrorString, v: msg}})
}

// intIndex evaluates an index value against a length; symbolic indexes fork.
func (r *Run) intIndex(fr *frame, idx value, length int, what string) int {
	if s, ok := idx.(Sym); ok {
		t := r.ts.Resize(s.T, SBV64, kindSigned(s.K))
		// in range: 0 <= t < length (unsigned compare covers negative values)
		in := r.ts.Cmp(OpULt, t, r.ts.Const(SBV64, uint64(length)))
		if !r.branch(in) {
			r.targetPanicStr(fr, fmt.Sprintf("runtime error: %s out of range [sym] with length %d", what, length))
		}
		return int(r.concretize(t, what))
	}
	i := asInt64(idx)
	if i < 0 || i >= int64(length) {
		r.targetPanicStr(fr, fmt.Sprintf("runtime error: %s out of range [%d] with length %d", what, i, length))
	}
	return int(i)
}

// intBound evaluates a slice bound or size (0 <= v <= max).
func (r *Run) intBound(fr *frame, v value, max int, what string) int {
	if s, ok := v.(Sym); ok {
		t := r.ts.Resize(s.T, SBV64, kindSigned(s.K))
		in := r.ts.Cmp(OpULe, t, r.ts.Const(SBV64, uint64(max)))
		if !r.branch(in) {
			r.targetPanicStr(fr, fmt.Sprintf("runtime error: %s out of range [sym] with capacity %d", what, max))
		}
		return int(r.concretize(t, what))
	}
	i := asInt64(v)
	if i < 0 || i > int64(max) {
		r.targetPanicStr(fr, fmt.Sprintf("runtime error: %s out of range [%d] with capacity %d", what, i, max))
	}
	return int(i)
}

// visitInstr interprets a single ssa.Instruction within the activation
// record frame.  It returns a continuation value indicating where to
// read the next instruction from.
func visitInstr(fr *frame, instr ssa.Instruction) continuation {
	r := fr.r
	switch instr := instr.(type) {
	case *ssa.DebugRef:
		// no-op

	case *ssa.UnOp:
		fr.env[instr] = r.unop(fr, instr, fr.get(instr.X))

	case *ssa.BinOp:
		fr.env[instr] = r.binop(fr, instr.Op, instr.X.Type(), fr.get(instr.X), fr.get(instr.Y))

	case *ssa.Call:
		fn, args := r.prepareCall(fr, &instr.Call)
		fr.env[instr] = r.call(fr, instr.Pos(), fn, args)

	case *ssa.ChangeInterface:
		fr.env[instr] = fr.get(instr.X)

	case *ssa.ChangeType:
		fr.env[instr] = fr.get(instr.X) // (can't fail)

	case *ssa.Convert:
		fr.env[instr] = r.conv(fr, instr.Type(), instr.X.Type(), fr.get(instr.X))

	case *ssa.SliceToArrayPointer:
		fr.env[instr] = r.sliceToArrayPointer(fr, instr.Type(), instr.X.Type(), fr.get(instr.X))

	case *ssa.MakeInterface:
		fr.env[instr] = iface{t: instr.X.Type(), v: fr.get(instr.X)}

	case *ssa.Extract:
		fr.env[instr] = fr.get(instr.Tuple).(tuple)[instr.Index]

	case *ssa.Slice:
		fr.env[instr] = r.slice(fr, fr.get(instr.X), fr.get(instr.Low), fr.get(instr.High), fr.get(instr.Max))

	case *ssa.Return:
		switch len(instr.Results) {
		case 0:
		case 1:
			fr.result = fr.get(instr.Results[0])
		default:
			var res []value
			for _, r := range instr.Results {
				res = append(res, fr.get(r))
			}
			fr.result = tuple(res)
		}
		fr.block = nil
		return kReturn

	case *ssa.RunDefers:
		fr.runDefers()

	case *ssa.Panic:
		panic(targetPanic{fr.get(instr.X)})

	case *ssa.Send:
		ch, _ := fr.get(instr.Chan).(*channel)
		r.chanSend(fr, ch, fr.get(instr.X))

	case *ssa.Store:
		addr, _ := fr.get(instr.Addr).(*value)
		if addr == nil {
			r.targetPanicStr(fr, "runtime error: invalid memory address or nil pointer dereference")
		}
		if sc, ok := r.symCells[addr]; ok {
			r.symStore(sc, fr.get(instr.Val))
		} else {
			store(deref(instr.Addr.Type()), addr, fr.get(instr.Val))
		}
		if r.inInit > 0 {
			if g, ok := instr.Addr.(*ssa.Global); ok {
				if _, isPoison := fr.get(instr.Val).(poisonVal); isPoison {
					r.poisoned[g] = true
				} else {
					r.initWritten[g] = true
				}
			}
		}

	case *ssa.If:
		succ := 1
		switch c := fr.get(instr.Cond).(type) {
		case bool:
			if c {
				succ = 0
			}
		case Sym:
			if r.branch(c.T) {
				succ = 0
			}
		default:
			panic(fmt.Sprintf("If: condition of type %T", c))
		}
		fr.prevBlock, fr.block = fr.block, fr.block.Succs[succ]
		return kJump

	case *ssa.Jump:
		fr.prevBlock, fr.block = fr.block, fr.block.Succs[0]
		return kJump

	case *ssa.Defer:
		fn, args := r.prepareCall(fr, &instr.Call)
		defers := &fr.defers
		if into := fr.get(instr.DeferStack); into != nil {
			defers = into.(**deferred)
		}
		*defers = &deferred{
			fn:    fn,
			args:  args,
			instr: instr,
			tail:  *defers,
		}

	case *ssa.Go:
		fn, args := r.prepareCall(fr, &instr.Call)
		r.spawn(fr, instr.Pos(), fn, args)

	case *ssa.MakeChan:
		n := r.intBound(fr, fr.get(instr.Size), 1<<20, "makechan size")
		r.chanSeq++
		fr.env[instr] = &channel{cap: n, id: r.chanSeq}

	case *ssa.Alloc:
		var addr *value
		if instr.Heap {
			// new
			addr = new(value)
			fr.env[instr] = addr
		} else {
			// local
			addr = fr.env[instr].(*value)
		}
		*addr = zero(deref(instr.Type()))

	case *ssa.MakeSlice:
		c := r.intBound(fr, fr.get(instr.Cap), 1<<24, "makeslice cap")
		l := r.intBound(fr, fr.get(instr.Len), c, "makeslice len")
		slice := make([]value, c)
		tElt := instr.Type().Underlying().(*types.Slice).Elem()
		for i := range slice {
			slice[i] = zero(tElt)
		}
		fr.env[instr] = slice[:l]

	case *ssa.MakeMap:
		fr.env[instr] = newOmap(instr.Type().Underlying().(*types.Map).Key())

	case *ssa.Range:
		fr.env[instr] = r.rangeIter(fr.get(instr.X))

	case *ssa.Next:
		fr.env[instr] = fr.get(instr.Iter).(iter).next()

	case *ssa.FieldAddr:
		p, _ := fr.get(instr.X).(*value)
		if p == nil {
			r.targetPanicStr(fr, "runtime error: invalid memory address or nil pointer dereference")
		}
		fr.env[instr] = &(*p).(structure)[instr.Field]

	case *ssa.Field:
		fr.env[instr] = fr.get(instr.X).(structure)[instr.Field]

	case *ssa.IndexAddr:
		x := fr.get(instr.X)
		idx := fr.get(instr.Index)
		switch x := x.(type) {
		case []value:
			if s, ok := idx.(Sym); ok && scalarElems(x) {
				fr.env[instr] = r.symIndexAddr(fr, x, s)
				break
			}
			fr.env[instr] = &x[r.intIndex(fr, idx, len(x), "index")]
		case *value: // *array
			if x == nil {
				r.targetPanicStr(fr, "runtime error: invalid memory address or nil pointer dereference")
			}
			a := (*x).(array)
			if s, ok := idx.(Sym); ok && scalarElems(a) {
				fr.env[instr] = r.symIndexAddr(fr, a, s)
				break
			}
			fr.env[instr] = &a[r.intIndex(fr, idx, len(a), "index")]
		default:
			panic(fmt.Sprintf("unexpected x type in IndexAddr: %T", x))
		}

	case *ssa.Index:
		x := fr.get(instr.X)
		idx := fr.get(instr.Index)

		switch x := x.(type) {
		case array:
			if s, ok := idx.(Sym); ok && scalarElems(x) {
				fr.env[instr] = r.symSelect(fr, x, s)
				break
			}
			fr.env[instr] = x[r.intIndex(fr, idx, len(x), "index")]
		case string:
			if s, ok := idx.(Sym); ok {
				fr.env[instr] = r.symSelect(fr, strBytes(x), s)
				break
			}
			fr.env[instr] = x[r.intIndex(fr, idx, len(x), "index")]
		case *symstr:
			if s, ok := idx.(Sym); ok {
				fr.env[instr] = r.symSelect(fr, x.b, s)
				break
			}
			fr.env[instr] = x.b[r.intIndex(fr, idx, len(x.b), "index")]
		default:
			panic(fmt.Sprintf("unexpected x type in Index: %T", x))
		}

	case *ssa.Lookup:
		fr.env[instr] = r.lookup(fr, instr, fr.get(instr.X), fr.get(instr.Index))

	case *ssa.MapUpdate:
		m, _ := fr.get(instr.Map).(*omap)
		if m == nil {
			panic(targetPanic{iface{t: r.eng.runtimeErrorString, v: "assignment to entry in nil map"}})
		}
		r.mapUpdate(fr, m, fr.get(instr.Key), fr.get(instr.Value))

	case *ssa.TypeAssert:
		fr.env[instr] = r.typeAssert(fr, instr, fr.get(instr.X).(iface))

	case *ssa.MakeClosure:
		var bindings []value
		for _, binding := range instr.Bindings {
			bindings = append(bindings, fr.get(binding))
		}
		fr.env[instr] = &closure{instr.Fn.(*ssa.Function), bindings}

	case *ssa.Phi:
		panic("unreachable") // phis are processed at block entry

	case *ssa.Select:
		fr.env[instr] = r.doSelect(fr, instr)

	default:
		panic(fmt.Sprintf("unexpected instruction: %T", instr))
	}

	return kNext
}

// prepareCall determines the function value and argument values for a
// function call in a Call, Go or Defer instruction, performing
// interface method lookup if needed.
func (r *Run) prepareCall(fr *frame, call *ssa.CallCommon) (fn value, args []value) {
	v := fr.get(call.Value)
	if call.Method == nil {
		// Function call.
		fn = v
	} else {
		// Interface method invocation.
		recv := v.(iface)
		if recv.t == nil {
			if r.eng.isSinkPkg(call.Method.Pkg()) {
				// method of a logging/metrics interface on a nil (sink) value
				return &hostFunc{name: "sink:" + call.Method.FullName(), fn: func(fr *frame, args []value) value {
					fr.r.stubs["sink"]++
					return zeroResults(call.Signature().Results())
				}}, nil
			}
			r.targetPanicStr(fr, "runtime error: invalid memory address or nil pointer dereference (method "+call.Method.Name()+" invoked on nil interface)")
		}
		if ho, ok := recv.v.(*hostObj); ok && ho.kind == "sink" {
			return &hostFunc{name: "sink:" + call.Method.FullName(), fn: func(fr *frame, args []value) value {
				fr.r.stubs["sink"]++
				return zeroResults(call.Signature().Results())
			}}, nil
		}
		if f := r.lookupMethod(recv.t, call.Method); f == nil {
			// Unreachable in well-typed programs.
			panic(fmt.Sprintf("method set for dynamic type %v does not contain %s", recv.t, call.Method))
		} else {
			fn = f
		}
		args = append(args, recv.v)
	}
	for _, arg := range call.Args {
		args = append(args, fr.get(arg))
	}
	return
}

func zeroResults(res *types.Tuple) value {
	switch res.Len() {
	case 0:
		return nil
	case 1:
		return zero(res.At(0).Type())
	}
	return zero(res)
}

// call interprets a call to a function (function, builtin or closure)
// fn with arguments args, returning its result.
// callpos is the position of the callsite.
func (r *Run) call(caller *frame, callpos token.Pos, fn value, args []value) value {
	switch fn := fn.(type) {
	case *ssa.Function:
		if fn == nil {
			r.targetPanicStr(caller, "runtime error: invalid memory address or nil pointer dereference (call of nil func)")
		}
		return r.callSSA(caller, callpos, fn, args, nil)
	case *closure:
		return r.callSSA(caller, callpos, fn.Fn, args, fn.Env)
	case *ssa.Builtin:
		return r.callBuiltin(caller, fn, args)
	case *hostFunc:
		return fn.fn(caller, args)
	}
	panic(fmt.Sprintf("cannot call %T", fn))
}

func fnKey(fn *ssa.Function) string {
	if o := fn.Origin(); o != nil {
		return o.String()
	}
	return fn.String()
}

func fnPkg(fn *ssa.Function) *types.Package {
	f := fn
	if o := f.Origin(); o != nil {
		f = o
	}
	for f.Parent() != nil {
		f = f.Parent()
	}
	if f.Pkg != nil {
		return f.Pkg.Pkg
	}
	if obj := f.Object(); obj != nil {
		return obj.Pkg()
	}
	// wrappers / bound methods / thunks of a method
	if f.Signature.Recv() != nil {
		if p := f.Signature.Recv().Pkg(); p != nil {
			return p
		}
	}
	return nil
}

// callSSA interprets a call to function fn with arguments args,
// and lexical environment env, returning its result.
func (r *Run) callSSA(caller *frame, callpos token.Pos, fn *ssa.Function, args []value, env []value) value {
	var th *thread
	if caller != nil {
		th = caller.th
	}
	fr := &frame{
		r:      r,
		th:     th,
		caller: caller, // for panic/recover
		fn:     fn,
	}
	if fn.Parent() == nil {
		if caller != nil && fn.Synthetic == "package initializer" {
			// initialisation is lazy and non-transitive: imported packages are
			// initialised on first access to one of their globals
			return nil
		}
		key := fnKey(fn)
		if ext := r.eng.intrinsics[key]; ext != nil {
			r.stubs[key]++
			return ext(fr, args)
		}
		if r.eng.sinkFuncs[key] {
			r.stubs["sink:"+key]++
			return r.sinkResult(fn.Signature.Results())
		}
		pkg := fnPkg(fn)
		if pkg != nil {
			if r.eng.isTargetPkg(pkg) && strings.HasPrefix(fn.Name(), "vf") {
				return r.vfCall(fr, fn, args)
			}
			if r.eng.isSinkPkg(pkg) {
				r.stubs["sink"]++
				return r.sinkResult(fn.Signature.Results())
			}
		}
		if fn.Blocks == nil {
			if r.inInit > 0 {
				return poisonVal{}
			}
			r.inconclusive("unsupported: no code for function %s\n%s", key, caller.stack())
		}
	}

	// generic function body?
	if fn.TypeParams().Len() > 0 && len(fn.TypeArgs()) == 0 {
		panic("interp requires ssa.BuilderMode to include InstantiateGenerics to execute generics")
	}
	if p := fnPkg(fn); p != nil && r.eng.isTargetPkg(p) {
		r.funcs[fn]++
	}

	r.depth++
	if r.depth > 4000 {
		r.abort("unwind", fmt.Sprintf("call depth %d exceeded in %s (runaway recursion?)", r.depth, fn))
	}
	defer func() { r.depth-- }()
	fr.env = make(map[ssa.Value]value)
	fr.block = fn.Blocks[0]
	fr.locals = make([]value, len(fn.Locals))
	for i, l := range fn.Locals {
		fr.locals[i] = zero(deref(l.Type()))
		fr.env[l] = &fr.locals[i]
	}
	for i, p := range fn.Params {
		fr.env[p] = args[i]
	}
	for i, fv := range fn.FreeVars {
		fr.env[fv] = env[i]
	}
	for fr.block != nil {
		runFrame(fr)
	}
	return fr.result
}

// sinkResult fabricates the result of a call into a sink package.
func (r *Run) sinkResult(res *types.Tuple) value {
	mk := func(t types.Type) value {
		switch u := t.Underlying().(type) {
		case *types.Interface:
			_ = u
			return iface{t: t, v: &hostObj{kind: "sink"}}
		case *types.Pointer:
			// a non-nil pointer to a zero value, so that field reads work
			cell := new(value)
			*cell = zero(u.Elem())
			return cell
		}
		return zero(t)
	}
	switch res.Len() {
	case 0:
		return nil
	case 1:
		return mk(res.At(0).Type())
	}
	t := make(tuple, res.Len())
	for i := range t {
		t[i] = mk(res.At(i).Type())
	}
	return t
}

// runFrame executes SSA instructions starting at fr.block and
// continuing until a return, a panic, or a recovered panic.
func runFrame(fr *frame) {
	defer func() {
		if fr.block == nil {
			return // normal return
		}
		p := recover()
		switch p := p.(type) {
		case runAbort:
			panic(p) // engine unwinding: target defers do not run
		case runtime.Error:
			// a host runtime error is an engine defect, never a target panic
			panic(runAbort{"inconclusive", fmt.Sprintf("engine crash: %v at %s\n%s\n%s", p, fr.pos(), fr.stack(), hostStack())})
		case string:
			panic(runAbort{"inconclusive", fmt.Sprintf("engine panic: %s at %s\n%s\n%s", p, fr.pos(), fr.stack(), hostStack())})
		case targetPanic:
			fr.panicking = true
			fr.panic = p
		default:
			panic(runAbort{"inconclusive", fmt.Sprintf("engine panic: %v at %s\n%s\n%s", p, fr.pos(), fr.stack(), hostStack())})
		}
		fr.runDefers()
		fr.block = fr.fn.Recover
	}()

	r := fr.r
	for {
		nonPhis := executePhis(fr)
		for _, instr := range nonPhis {
			r.instrs++
			if r.instrs > r.instrLimit {
				r.abort("unwind", fmt.Sprintf("instruction budget %d exceeded at %s", r.instrLimit, fr.pos()))
			}
			fr.curInstr = instr
			r.curFrame = fr
			if visitInstr(fr, instr) == kReturn {
				return
			}
			// Inv: kNext (continue) or kJump (last instr)
		}
	}
}

func hostStack() string {
	buf := make([]byte, 1<<14)
	n := runtime.Stack(buf, false)
	s := string(buf[:n])
	// keep it short
	lines := strings.Split(s, "\n")
	if len(lines) > 40 {
		lines = lines[:40]
	}
	return strings.Join(lines, "\n")
}

// executePhis executes the phi-nodes at the start of the current
// block and returns the non-phi instructions.
func executePhis(fr *frame) []ssa.Instruction {
	firstNonPhi := -1
	for i, instr := range fr.block.Instrs {
		if _, ok := instr.(*ssa.Phi); !ok {
			firstNonPhi = i
			break
		}
	}
	// Inv: 0 <= firstNonPhi; every block contains a non-phi.

	nonPhis := fr.block.Instrs[firstNonPhi:]
	if firstNonPhi > 0 {
		phis := fr.block.Instrs[:firstNonPhi]
		// Execute parallel assignment of phis.
		predIndex := slices.Index(fr.block.Preds, fr.prevBlock)
		fr.phitemps = fr.phitemps[:0]
		for _, phi := range phis {
			phi := phi.(*ssa.Phi)
			fr.phitemps = append(fr.phitemps, fr.get(phi.Edges[predIndex]))
		}
		for i, phi := range phis {
			fr.env[phi.(*ssa.Phi)] = fr.phitemps[i]
		}
	}
	return nonPhis
}

// doRecover implements the recover() built-in.
func doRecover(caller *frame) value {
	// recover() must be exactly one level beneath the deferred
	// function (two levels beneath the panicking function) to
	// have any effect.  Thus we ignore both "defer recover()" and
	// "defer f() -> g() -> recover()".
	if caller != nil && !caller.panicking &&
		caller.caller != nil && caller.caller.panicking {
		caller.caller.panicking = false
		p := caller.caller.panic
		caller.caller.panic = nil

		switch p := p.(type) {
		case targetPanic:
			// The target program explicitly called panic().
			return p.v
		default:
			panic(fmt.Sprintf("unexpected panic type %T in target call to recover()", p))
		}
	}
	return iface{}
}

// ---- globals and lazy package initialisation ----

func (r *Run) globalAddr(g *ssa.Global) *value {
	if cell, ok := r.globals[g]; ok {
		if r.poisoned[g] && !r.initBusy[g.Pkg] {
			r.inconclusive("read of global %s whose initialiser could not be executed", g)
		}
		return cell
	}
	pkg := g.Pkg
	if pkg != nil && !r.initDone[pkg] && !r.initBusy[pkg] && g.Name() != "init$guard" {
		r.initPackage(pkg)
	}
	if cell, ok := r.globals[g]; ok {
		if r.poisoned[g] && !r.initBusy[pkg] {
			r.inconclusive("read of global %s whose initialiser could not be executed", g)
		}
		return cell
	}
	cell := new(value)
	*cell = zero(deref(g.Type()))
	r.globals[g] = cell
	return cell
}

// initPackage runs pkg's synthesized init without the calls into imported
// packages' init functions (initialisation is lazy and non-transitive).
func (r *Run) initPackage(pkg *ssa.Package) {
	r.initBusy[pkg] = true
	defer func() {
		r.initBusy[pkg] = false
		r.initDone[pkg] = true
	}()
	initFn := pkg.Func("init")
	if initFn == nil || initFn.Blocks == nil {
		return
	}
	// allocate all globals first so stores land in the right cells
	for _, m := range pkg.Members {
		if g, ok := m.(*ssa.Global); ok {
			if _, ok := r.globals[g]; !ok {
				cell := new(value)
				*cell = zero(deref(g.Type()))
				r.globals[g] = cell
			}
		}
	}
	if r.eng.skipInit[pkg.Pkg.Path()] {
		return
	}
	savedInstrs := r.instrs
	func() {
		defer func() {
			if p := recover(); p != nil {
				ra, ok := p.(runAbort)
				if ok && (ra.kind == "killed" || ra.kind == "violation") {
					panic(p)
				}
				// initialiser failed: poison the globals it had not stored yet
				msg := fmt.Sprint(p)
				if ok {
					msg = ra.msg
				}
				if tp, isTP := p.(targetPanic); isTP {
					msg = "panic: " + r.panicString(tp)
				}
				r.eng.noteInitFailure(pkg.Pkg.Path(), msg)
				written := r.eng.initStores(pkg)
				for g := range written {
					if !r.initWritten[g] {
						r.poisoned[g] = true
					}
				}
			}
		}()
		r.inInit++
		defer func() { r.inInit-- }()
		r.callSSA(nil, token.NoPos, initFn, nil, nil)
	}()
	r.instrs = savedInstrs
}
