package main

// Virtual clock (testing/synctest semantics: time moves only when the harness
// advances it), timers, and the "scaled" representation that keeps
// time.Duration arithmetic free of 64-bit multiplications by 10^9.

import (
	"fmt"
	"go/token"
	"go/types"
)

const unixToInternal int64 = (1969*365 + 1969/4 - 1969/100 + 1969/400) * 86400
const nsPerSec = 1000000000

type clockState struct {
	sec    value // int64 or Sym(Int64): unix seconds
	nsec   int64
	timers []*timerState
	seq    int
}

type timerState struct {
	id       int
	whenSec  int64
	whenNsec int64
	period   int64 // ns; 0 = one-shot
	ch       *channel
	fn       value // AfterFunc
	active   bool
	cell     *value // the *time.Timer / *time.Ticker structure cell
}

func (c *clockState) init() {
	c.sec = int64(946684800) // 2000-01-01, as in a synctest bubble
}

func (r *Run) clockSet(fr *frame, sec value) {
	if len(r.clock.timers) > 0 {
		if _, ok := sec.(Sym); ok {
			r.inconclusive("symbolic clock with active timers")
		}
	}
	r.clock.sec = sec
	r.clock.nsec = 0
	r.fireTimers(fr)
}

func (r *Run) clockAdvance(fr *frame, d value) {
	c := &r.clock
	switch d := d.(type) {
	case int64:
		if s, ok := c.sec.(int64); ok {
			total := c.nsec + d%nsPerSec
			s += d / nsPerSec
			if total >= nsPerSec {
				total -= nsPerSec
				s++
			} else if total < 0 {
				total += nsPerSec
				s--
			}
			c.sec, c.nsec = s, total
		} else {
			// the second is symbolic, the sub-second part stays concrete
			total := c.nsec + d%nsPerSec
			carry := d / nsPerSec
			if total >= nsPerSec {
				total -= nsPerSec
				carry++
			} else if total < 0 {
				total += nsPerSec
				carry--
			}
			c.nsec = total
			if carry != 0 {
				c.sec = r.binop(fr, token.ADD, nil, c.sec, int64(carry))
			}
		}
	case Sym:
		base, k, ok := r.scaledParts(d.T)
		if !ok || k != 0 {
			r.inconclusive("vfAdvance by a symbolic duration that is not whole seconds")
		}
		c.sec = r.binop(fr, token.ADD, nil, c.sec, symOrConc(base, types.Int64))
	default:
		panic(fmt.Sprintf("vfAdvance: %T", d))
	}
	r.fireTimers(fr)
}

// clockAdvanceStaged advances a concrete clock the way a synctest bubble does:
// time moves to the next timer deadline only when every other thread is
// blocked, so two timers that fall inside one vfAdvance are handled one after
// the other, in deadline order, never as if they had expired together.
func (r *Run) clockAdvanceStaged(fr *frame, d value) {
	c := &r.clock
	dd, okD := d.(int64)
	s0, okS := c.sec.(int64)
	if !okD || !okS || dd <= 0 || len(c.timers) == 0 {
		r.clockAdvance(fr, d)
		return
	}
	tNs := c.nsec + dd%nsPerSec
	tS := s0 + dd/nsPerSec
	if tNs >= nsPerSec {
		tNs -= nsPerSec
		tS++
	}
	for guard := 0; guard < 10000; guard++ {
		cs, cn := c.sec.(int64), c.nsec
		found := false
		var bs, bn int64
		for _, t := range c.timers {
			if !t.active {
				continue
			}
			after := t.whenSec > cs || (t.whenSec == cs && t.whenNsec > cn)
			before := t.whenSec < tS || (t.whenSec == tS && t.whenNsec < tNs)
			if after && before && (!found || t.whenSec < bs || (t.whenSec == bs && t.whenNsec < bn)) {
				found, bs, bn = true, t.whenSec, t.whenNsec
			}
		}
		if !found {
			break
		}
		c.sec, c.nsec = bs, bn
		r.fireTimers(fr)
		r.sched.quiesceWait(r.curThread(fr))
		if _, ok := c.sec.(int64); !ok {
			r.inconclusive("clock became symbolic during a staged advance")
		}
	}
	c.sec, c.nsec = tS, tNs
	r.fireTimers(fr)
}

func (r *Run) nowTime() value {
	c := &r.clock
	var ext value
	switch s := c.sec.(type) {
	case int64:
		ext = s + unixToInternal
	case Sym:
		ext = symOrConc(r.ts.Bin(OpAdd, s.T, r.ts.Const(SBV64, uint64(unixToInternal))), types.Int64)
	}
	return structure{uint64(c.nsec), ext, (*value)(nil)}
}

func (r *Run) concreteNow() (int64, int64) {
	s, ok := r.clock.sec.(int64)
	if !ok {
		r.inconclusive("timer operation with a symbolic clock")
	}
	return s, r.clock.nsec
}

func (r *Run) newTimer(d value, period bool, fn value) *timerState {
	dd, ok := d.(int64)
	if !ok {
		r.inconclusive("timer with symbolic duration")
	}
	s, ns := r.concreteNow()
	t := &timerState{active: true, fn: fn}
	r.clock.seq++
	t.id = r.clock.seq
	t.setWhen(s, ns, dd)
	if period {
		t.period = dd
	}
	if fn == nil {
		r.chanSeq++
		t.ch = &channel{cap: 1, id: r.chanSeq}
	}
	r.clock.timers = append(r.clock.timers, t)
	return t
}

func (t *timerState) setWhen(s, ns, d int64) {
	if d < 0 {
		d = 0
	}
	tot := ns + d%nsPerSec
	s += d / nsPerSec
	if tot >= nsPerSec {
		tot -= nsPerSec
		s++
	}
	t.whenSec, t.whenNsec = s, tot
}

// fireTimers fires every timer whose deadline has been reached.
func (r *Run) fireTimers(fr *frame) {
	if len(r.clock.timers) == 0 {
		return
	}
	s, ns := r.concreteNow()
	for progress := true; progress; {
		progress = false
		for _, t := range r.clock.timers {
			if !t.active {
				continue
			}
			if t.whenSec < s || (t.whenSec == s && t.whenNsec <= ns) {
				progress = true
				if t.fn != nil {
					t.active = false
					r.spawn(fr, token.NoPos, t.fn, nil)
					continue
				}
				// deliver the time (drop if the buffer is full, like the runtime)
				tv := structure{uint64(t.whenNsec), t.whenSec + unixToInternal, (*value)(nil)}
				if w := t.ch.takeRecv(); w != nil {
					w.val, w.ok, w.done = tv, true, true
					if w.sel != nil {
						w.sel.fired, w.sel.idx, w.sel.val, w.sel.ok = true, w.idx, tv, true
					}
				} else if len(t.ch.buf) < t.ch.cap {
					t.ch.buf = append(t.ch.buf, tv)
				}
				if t.period > 0 {
					t.setWhen(t.whenSec, t.whenNsec, t.period)
				} else {
					t.active = false
				}
			}
		}
	}
}

func registerTimeIntrinsics(e *Engine) {
	in := e.intrinsics
	in["time.Now"] = func(fr *frame, args []value) value { return fr.r.nowTime() }
	in["time.Since"] = func(fr *frame, args []value) value { return fr.r.timeSub(fr, fr.r.nowTime(), args[0]) }
	in["time.Until"] = func(fr *frame, args []value) value { return fr.r.timeSub(fr, args[0], fr.r.nowTime()) }
	in["(time.Time).Sub"] = func(fr *frame, args []value) value { return fr.r.timeSub(fr, args[0], args[1]) }
	in["(time.Time).Add"] = func(fr *frame, args []value) value { return fr.r.timeAdd(fr, args[0], args[1]) }
	in["time.Unix"] = func(fr *frame, args []value) value {
		r := fr.r
		ns, ok := args[1].(int64)
		if !ok || ns < 0 || ns >= nsPerSec {
			if ok {
				// normalise concrete nsec
				sec := args[0]
				q := ns / nsPerSec
				ns -= q * nsPerSec
				if ns < 0 {
					ns += nsPerSec
					q--
				}
				sec = r.binop(fr, token.ADD, nil, sec, q)
				return structure{uint64(ns), r.binop(fr, token.ADD, nil, sec, unixToInternal), (*value)(nil)}
			}
			r.inconclusive("time.Unix with symbolic nanoseconds at %s", fr.pos())
		}
		return structure{uint64(ns), r.binop(fr, token.ADD, nil, args[0], unixToInternal), (*value)(nil)}
	}
	in["time.Sleep"] = func(fr *frame, args []value) value {
		r := fr.r
		if d, ok := args[0].(int64); ok && d <= 0 {
			return nil // time.Sleep returns immediately for a non-positive duration
		}
		t := r.newTimer(args[0], false, nil)
		th := r.curThread(fr)
		r.sched.block(fr, th, func() bool { return !t.active }, "time.Sleep at "+fr.pos())
		return nil
	}
	in["time.After"] = func(fr *frame, args []value) value {
		return fr.r.newTimer(args[0], false, nil).ch
	}
	in["time.Tick"] = func(fr *frame, args []value) value {
		return fr.r.newTimer(args[0], true, nil).ch
	}
	mkTimerObj := func(fr *frame, typ string, t *timerState) value {
		r := fr.r
		tt := r.eng.namedType("time", typ)
		cell := new(value)
		st := zero(tt).(structure)
		st[0] = t.ch // field C
		if t.ch == nil {
			st[0] = (*channel)(nil)
		}
		*cell = st
		t.cell = cell
		r.hostval[cell] = &hostObj{kind: "timer", data: t}
		return cell
	}
	in["time.NewTimer"] = func(fr *frame, args []value) value {
		return mkTimerObj(fr, "Timer", fr.r.newTimer(args[0], false, nil))
	}
	in["time.NewTicker"] = func(fr *frame, args []value) value {
		if d, ok := args[0].(int64); ok && d <= 0 {
			fr.r.targetPanicStr(fr, "non-positive interval for NewTicker")
		}
		return mkTimerObj(fr, "Ticker", fr.r.newTimer(args[0], true, nil))
	}
	in["time.AfterFunc"] = func(fr *frame, args []value) value {
		return mkTimerObj(fr, "Timer", fr.r.newTimer(args[0], false, args[1]))
	}
	timerOf := func(fr *frame, p value) *timerState {
		h, ok := fr.r.hostval[p.(*value)]
		if !ok {
			fr.r.inconclusive("timer without host state at %s", fr.pos())
		}
		return h.(*hostObj).data.(*timerState)
	}
	in["(*time.Timer).Stop"] = func(fr *frame, args []value) value {
		t := timerOf(fr, args[0])
		was := t.active
		t.active = false
		if t.ch != nil {
			t.ch.buf = nil // go1.23+: no stale values after Stop
		}
		return was
	}
	in["(*time.Timer).Reset"] = func(fr *frame, args []value) value {
		r := fr.r
		t := timerOf(fr, args[0])
		was := t.active
		d, ok := args[1].(int64)
		if !ok {
			r.inconclusive("Timer.Reset with symbolic duration")
		}
		s, ns := r.concreteNow()
		t.setWhen(s, ns, d)
		t.active = true
		if t.ch != nil {
			t.ch.buf = nil
		}
		return was
	}
	in["(*time.Ticker).Stop"] = func(fr *frame, args []value) value {
		t := timerOf(fr, args[0])
		t.active = false
		return nil
	}
	in["(*time.Ticker).Reset"] = func(fr *frame, args []value) value {
		r := fr.r
		t := timerOf(fr, args[0])
		d, ok := args[1].(int64)
		if !ok {
			r.inconclusive("Ticker.Reset with symbolic duration")
		}
		s, ns := r.concreteNow()
		t.setWhen(s, ns, d)
		t.period = d
		t.active = true
		return nil
	}
	in["(time.Duration).String"] = func(fr *frame, args []value) value {
		if d, ok := args[0].(int64); ok {
			return fmt.Sprintf("%dns", d)
		}
		return "?"
	}
	in["(time.Time).String"] = func(fr *frame, args []value) value { return "<time>" }
	in["(time.Time).Format"] = func(fr *frame, args []value) value { return "<time>" }
}

// timeParts splits a time.Time value into unix seconds (value) and nanoseconds.
func (r *Run) timeParts(fr *frame, t value) (value, int64) {
	st := t.(structure)
	wall, ok := st[0].(uint64)
	if !ok {
		r.inconclusive("time.Time with symbolic nanoseconds at %s", fr.pos())
	}
	if wall&(1<<63) != 0 {
		r.inconclusive("time.Time with monotonic reading at %s", fr.pos())
	}
	return r.binop(fr, token.SUB, nil, st[1], unixToInternal), int64(wall & (1<<30 - 1))
}

// timeSub computes t-u as a Duration, assuming no overflow (checked bound on
// the operands' seconds: see scaledBaseOK).
func (r *Run) timeSub(fr *frame, t, u value) value {
	ts, tn := r.timeParts(fr, t)
	us, un := r.timeParts(fr, u)
	dsec := r.binop(fr, token.SUB, nil, ts, us)
	dn := tn - un
	if c, ok := dsec.(int64); ok {
		return c*nsPerSec + dn
	}
	return r.binop(fr, token.ADD, nil, r.binop(fr, token.MUL, nil, dsec, int64(nsPerSec)), dn)
}

// timeAdd computes t+d without the overflow saturation of the real code (the
// operands are bounded: see scaledBaseOK).
func (r *Run) timeAdd(fr *frame, t, d value) value {
	sec, nsec := r.timeParts(fr, t)
	var dsec value
	var dn int64
	switch d := d.(type) {
	case int64:
		q, m := floorDivMod(d, nsPerSec)
		dsec, dn = q, m
	case Sym:
		b, k, ok := r.scaledParts(d.T)
		if !ok {
			r.inconclusive("time.Add with a symbolic duration that is not seconds*1e9+k at %s", fr.pos())
		}
		r.scaledBaseOK(b)
		dsec, dn = symOrConc(b, types.Int64), k
	default:
		panic(fmt.Sprintf("timeAdd: %T", d))
	}
	nsec += dn
	if nsec >= nsPerSec {
		nsec -= nsPerSec
		dsec = r.binop(fr, token.ADD, nil, dsec, int64(1))
	}
	nsecV := uint64(nsec)
	newSec := r.binop(fr, token.ADD, nil, sec, dsec)
	st := t.(structure)
	return structure{nsecV, r.binop(fr, token.ADD, nil, newSec, unixToInternal), st[2]}
}

// ---- scaled representation: t = base*10^9 + k, 0 <= k < 10^9 ----

func floorDivMod(a, c int64) (int64, int64) {
	q := a / c
	m := a % c
	if m < 0 {
		m += c
		q--
	}
	return q, m
}

// scaledParts recognises base*1e9 + k.
func (r *Run) scaledParts(t *Term) (*Term, int64, bool) {
	if t.sort != SBV64 {
		return nil, 0, false
	}
	isC := func(x *Term) bool { return x.op == OpConst && x.c == nsPerSec }
	switch t.op {
	case OpMul:
		if isC(t.args[1]) {
			return t.args[0], 0, true
		}
		if isC(t.args[0]) {
			return t.args[1], 0, true
		}
	case OpAdd:
		if t.args[1].op == OpConst && t.args[0].op == OpMul {
			if b, _, ok := r.scaledParts(t.args[0]); ok {
				q, m := floorDivMod(int64(t.args[1].c), nsPerSec)
				if q != 0 {
					b = r.ts.Bin(OpAdd, b, r.ts.Const(SBV64, uint64(q)))
				}
				return b, m, true
			}
		}
	}
	return nil, 0, false
}

func (r *Run) scaledOrConst(t *Term) (*Term, int64, bool, bool) {
	if t.op == OpConst {
		q, m := floorDivMod(int64(t.c), nsPerSec)
		return r.ts.Const(SBV64, uint64(q)), m, true, true
	}
	b, k, ok := r.scaledParts(t)
	return b, k, ok, false
}

// scaledBaseOK checks (once per term) that |base| <= 2^33 on this path, so that
// base*1e9 cannot wrap; otherwise the run is inconclusive.
func (r *Run) scaledBaseOK(b *Term) {
	if b.op == OpConst {
		return
	}
	if r.scaledChecked == nil {
		r.scaledChecked = make(map[*Term]bool)
	}
	if r.scaledChecked[b] {
		return
	}
	r.scaledChecked[b] = true
	lim := int64(1) << 33
	out := r.ts.Or(r.ts.Cmp(OpSLt, b, r.ts.Const(SBV64, uint64(-lim))), r.ts.Cmp(OpSLt, r.ts.Const(SBV64, uint64(lim)), b))
	r.scaledQueries++
	if v := r.check(out); v != Unsat {
		r.inconclusive("scaled duration base may exceed 2^33 seconds (verdict %v): bound timestamps/durations in the harness", v)
	}
}

func (r *Run) mkScaled(b *Term, k int64) *Term {
	t := r.ts.Bin(OpMul, b, r.ts.Const(SBV64, nsPerSec))
	if k != 0 {
		t = r.ts.Bin(OpAdd, t, r.ts.Const(SBV64, uint64(k)))
	}
	return t
}

func (r *Run) scaledAddSub(op Op, x, y *Term) *Term {
	if x.sort == SBV64 {
		bx, kx, okx, cx := r.scaledOrConst(x)
		by, ky, oky, cy := r.scaledOrConst(y)
		if okx && oky && !(cx && cy) {
			var b *Term
			var k int64
			if op == OpAdd {
				b = r.ts.Bin(OpAdd, bx, by)
				k = kx + ky
			} else {
				b = r.ts.Bin(OpSub, bx, by)
				k = kx - ky
			}
			q, m := floorDivMod(k, nsPerSec)
			if q != 0 {
				b = r.ts.Bin(OpAdd, b, r.ts.Const(SBV64, uint64(q)))
			}
			r.scaledHits++
			return r.mkScaled(b, m)
		}
	}
	return r.ts.Bin(op, x, y)
}

// scaledCmp builds a<b (a<=b) lexicographically when both sides are scaled.
func (r *Run) scaledCmp(orEq bool, a, b *Term) (*Term, bool) {
	ba, ka, oka, ca := r.scaledOrConst(a)
	bb, kb, okb, cb := r.scaledOrConst(b)
	if !oka || !okb || (ca && cb) {
		return nil, false
	}
	r.scaledBaseOK(ba)
	r.scaledBaseOK(bb)
	r.scaledHits++
	lt := r.ts.Cmp(OpSLt, ba, bb)
	eq := r.ts.Eq(ba, bb)
	var tail bool
	if orEq {
		tail = ka <= kb
	} else {
		tail = ka < kb
	}
	return r.ts.Or(lt, r.ts.And(eq, r.ts.Bool(tail))), true
}

func (r *Run) scaledEq(a, b *Term) (*Term, bool) {
	if a.sort != SBV64 {
		return nil, false
	}
	ba, ka, oka, ca := r.scaledOrConst(a)
	bb, kb, okb, cb := r.scaledOrConst(b)
	if !oka || !okb || (ca && cb) {
		return nil, false
	}
	r.scaledBaseOK(ba)
	r.scaledBaseOK(bb)
	r.scaledHits++
	if ka != kb {
		return r.ts.Bool(false), true
	}
	return r.ts.Eq(ba, bb), true
}

// scaledDivRem handles x / 1e9 and x % 1e9 (truncated division).
func (r *Run) scaledDivRem(op token.Token, x, y *Term, signed bool) (*Term, bool) {
	if !signed || y.op != OpConst || y.c != nsPerSec {
		return nil, false
	}
	b, k, ok := r.scaledParts(x)
	if !ok {
		return nil, false
	}
	r.scaledBaseOK(b)
	r.scaledHits++
	ts := r.ts
	if k == 0 {
		if op == token.QUO {
			return b, true
		}
		return ts.Const(SBV64, 0), true
	}
	neg := ts.Cmp(OpSLt, b, ts.Const(SBV64, 0))
	if op == token.QUO {
		return ts.Ite(neg, ts.Bin(OpAdd, b, ts.Const(SBV64, 1)), b), true
	}
	return ts.Ite(neg, ts.Const(SBV64, uint64(k-nsPerSec)), ts.Const(SBV64, uint64(k))), true
}
