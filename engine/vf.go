package main

// The harness API: functions named vf* in the packages under test are
// intercepted here. Their native bodies (harness/vfapi) replay a recorded
// vector, so the same harness file runs against the real build.

import (
	"fmt"
	"go/types"

	"golang.org/x/tools/go/ssa"
)

func argStr(v value) string {
	switch v := v.(type) {
	case string:
		return v
	case *symstr:
		if s, ok := v.concrete(); ok {
			return s
		}
	}
	panic(fmt.Sprintf("vf: expected a concrete string, got %T", v))
}

func (r *Run) vfCall(fr *frame, fn *ssa.Function, args []value) value {
	name := fn.Name()
	r.stubs[name]++
	switch name {
	case "vfBool":
		return r.freshInput(argStr(args[0]), types.Bool, "bool")
	case "vfU8":
		return r.freshInput(argStr(args[0]), types.Uint8, "u8")
	case "vfU16":
		return r.freshInput(argStr(args[0]), types.Uint16, "u16")
	case "vfU32":
		return r.freshInput(argStr(args[0]), types.Uint32, "u32")
	case "vfU64":
		return r.freshInput(argStr(args[0]), types.Uint64, "u64")
	case "vfI32":
		return r.freshInput(argStr(args[0]), types.Int32, "i32")
	case "vfI64":
		return r.freshInput(argStr(args[0]), types.Int64, "i64")
	case "vfInt":
		return r.freshInput(argStr(args[0]), types.Int, "int")
	case "vfBytes":
		n := int(asInt64(args[1]))
		base := argStr(args[0])
		out := make([]value, n)
		for i := range out {
			out[i] = r.freshInput(fmt.Sprintf("%s_%d", base, i), types.Uint8, "u8")
		}
		return out
	case "vfStr":
		n := int(asInt64(args[1]))
		base := argStr(args[0])
		out := make([]value, n)
		for i := range out {
			out[i] = r.freshInput(fmt.Sprintf("%s_%d", base, i), types.Uint8, "u8")
		}
		return mkStr(out)
	case "vfChoice":
		n := int(asInt64(args[1]))
		full := r.inputName(argStr(args[0]))
		var c int
		if r.eng.concreteMode {
			c = int(r.eng.concreteInputs[full] % uint64(max(n, 1)))
		} else {
			c = r.choice(n)
		}
		r.inputs = append(r.inputs, InputRec{Name: full, Kind: "choice", Val: uint64(c)})
		return c
	case "vfAssume":
		r.assume(r.boolTerm(args[0]))
		return nil
	case "vfAssert":
		c := r.boolTerm(args[0])
		msg := argStr(args[1])
		r.assertions++
		if isTrue(c) {
			return nil
		}
		neg := r.ts.Not(c)
		if isFalse(c) {
			r.reportViolation("assert", msg, callerPos(fr), nil)
		}
		if d, ok := r.decidedCache[c]; ok && d == 1 {
			return nil
		}
		if r.og.decide(c) == 1 {
			r.og.hits++
			return nil
		}
		r.assertQueries++
		verdict, _ := r.solver.Check(r.ts, neg, false, nil)
		switch verdict {
		case Unsat:
			r.decidedCache[c] = 1
			if r.eng.crossCheck && r.eng.crossCheckDue() {
				switch cv := r.solver.CrossCheck(r.ts, neg); cv {
				case Unsat:
					r.crossChecked++
				case Sat:
					r.inconclusive("cross-check disagreement on assertion %q: primary unsat, second solver sat", msg)
				default:
					// the second solver gave up (timeout): not a disagreement, the
					// query simply is not counted as cross-checked
				}
			}
			return nil
		case Sat:
			r.reportViolation("assert", msg, callerPos(fr), neg)
		default:
			r.inconclusive("solver unknown on assertion %q (%s)", msg, r.solver.lastErr)
		}
		return nil
	case "vfCover":
		r.covers[argStr(args[0])] = true
		return nil
	case "vfObserve":
		v := args[1]
		if i, ok := v.(iface); ok {
			v = i.v
		}
		r.observe = append(r.observe, obsVal{argStr(args[0]), v})
		return nil
	case "vfAnd":
		return r.boolVal(r.ts.And(r.boolTerm(args[0]), r.boolTerm(args[1])))
	case "vfOr":
		return r.boolVal(r.ts.Or(r.boolTerm(args[0]), r.boolTerm(args[1])))
	case "vfNot":
		return r.boolVal(r.ts.Not(r.boolTerm(args[0])))
	case "vfImplies":
		return r.boolVal(r.ts.Or(r.ts.Not(r.boolTerm(args[0])), r.boolTerm(args[1])))
	case "vfIteU32", "vfIteI64", "vfIteInt", "vfIteU64":
		c := r.boolTerm(args[0])
		if c.op == OpConst {
			if c.c != 0 {
				return args[1]
			}
			return args[2]
		}
		k := kindOfValue(args[1])
		if _, ok := args[1].(Sym); !ok {
			if s, ok := args[2].(Sym); ok {
				k = s.K
			}
		}
		return symOrConc(r.ts.Ite(c, r.term(args[1]), r.term(args[2])), k)
	case "vfTier":
		return r.tier
	case "vfParam":
		if v, ok := r.params[argStr(args[0])]; ok {
			return int(v)
		}
		return int(asInt64(args[1]))
	case "vfSymbolic":
		return !r.eng.concreteMode
	case "vfSetNow":
		r.clockSet(fr, args[0])
		return nil
	case "vfAdvance":
		r.clockAdvanceStaged(fr, args[0])
		return nil
	case "vfQuiesce":
		r.sched.quiesceWait(r.curThread(fr))
		return nil
	case "vfBlockedThreads":
		return r.sched.blockedCount(r.curThread(fr))
	case "vfLiveThreads":
		return r.sched.liveCount(r.curThread(fr))
	case "vfMapOrder":
		// selects the map iteration order for the rest of the run
		r.mapReverse = asInt64(args[0]) != 0
		return nil
	case "vfConcretizeU32":
		if s, ok := args[0].(Sym); ok {
			return fromBits(s.K, r.concretize(s.T, "vfConcretize"))
		}
		return args[0]
	case "vfFsCrashAt":
		// the k-th file-system operation from now on does not complete (k < 0: none)
		if k := int(asInt64(args[0])); k >= 0 {
			r.fsCrashAt = r.fsGet().ops + k
		} else {
			r.fsCrashAt = -1
		}
		return nil
	}
	// any other vf* function is a plain harness helper with a body
	if fn.Blocks != nil {
		return r.interpretBody(fr, fn, args)
	}
	r.inconclusive("unknown vf function %s", name)
	return nil
}

func callerPos(fr *frame) string {
	if fr != nil && fr.caller != nil {
		return fr.caller.pos()
	}
	return ""
}

// interpretBody runs fn's SSA body (used for vf-prefixed helpers).
func (r *Run) interpretBody(caller *frame, fn *ssa.Function, args []value) value {
	fr := &frame{r: r, th: caller.th, caller: caller.caller, fn: fn}
	fr.env = make(map[ssa.Value]value)
	fr.block = fn.Blocks[0]
	fr.locals = make([]value, len(fn.Locals))
	for i, l := range fn.Locals {
		fr.locals[i] = zero(deref(l.Type()))
		fr.env[l] = &fr.locals[i]
	}
	for i, p := range fn.Params {
		fr.env[p] = args[i]
	}
	for fr.block != nil {
		runFrame(fr)
	}
	return fr.result
}
