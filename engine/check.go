package main

// `gosym check <ID> --tier quick|thorough`: the registered check of one
// property. Builds the overlay from /verif/harness, loads /repo's current
// working tree, explores every harness of the property, replays violations and
// sample vectors natively, writes /verif/evidence/<ID>.json and prints the
// VIOLATION / KNOWN-FINDING lines required by the interface.

import (
	"bufio"
	"bytes"
	"crypto/sha256"
	"encoding/json"
	"flag"
	"fmt"
	"os"
	"os/exec"
	"path/filepath"
	"regexp"
	"sort"
	"strconv"
	"strings"
	"time"
)

type HarnessCfg struct {
	Name         string           `json:"name"`
	Pkg          string           `json:"pkg"` // e.g. "ring"
	Bubble       bool             `json:"bubble,omitempty"`
	ThoroughOnly bool             `json:"thorough_only,omitempty"`
	Quick        map[string]int64 `json:"quick,omitempty"`
	Thorough     map[string]int64 `json:"thorough,omitempty"`
	InstrLimit   int              `json:"instr_limit,omitempty"`
	MaxPaths     int              `json:"max_paths,omitempty"`
	Preempt      int              `json:"preempt,omitempty"`
	PreemptLocks bool             `json:"preempt_locks,omitempty"`
	// FaultModel: counterexamples contain faults injected by the engine's own
	// models (file-system crash points) that have no native counterpart; they
	// are reported on the engine's verdict, the native replay being informative.
	FaultModel bool `json:"fault_model,omitempty"`
	What         string           `json:"what,omitempty"`
}

type CheckCfg struct {
	Title       string       `json:"title"`
	Packages    []string     `json:"packages"`
	Harnesses   []HarnessCfg `json:"harnesses"`
	Assumptions []string     `json:"assumptions"`
	Bounds      []string     `json:"bounds"`
	Outside     []string     `json:"outside"`
	ExtraStubs  []string     `json:"extra_stubs,omitempty"`
}

type FindingCond struct {
	Name string  `json:"name"`
	Eq   *uint64 `json:"eq,omitempty"`
}

type KnownFinding struct {
	Property string        `json:"property"`
	Harness  string        `json:"harness,omitempty"`
	MsgRe    string        `json:"msg_re,omitempty"`
	Inputs   []FindingCond `json:"inputs,omitempty"`
	What     string        `json:"what"`
}

type KnownFile struct {
	Findings []KnownFinding `json:"findings"`
	Fixed    []string       `json:"fixed"`
}

func (k *KnownFinding) matches(prop string, v *Violation) bool {
	if k.Property != prop {
		return false
	}
	if k.Harness != "" && k.Harness != v.Harness {
		return false
	}
	if k.MsgRe != "" {
		if ok, _ := regexp.MatchString(k.MsgRe, v.Msg); !ok {
			return false
		}
	}
	for _, c := range k.Inputs {
		found := false
		for _, in := range v.Inputs {
			if in.Name == c.Name {
				found = true
				if c.Eq != nil && in.Val != *c.Eq {
					return false
				}
			}
		}
		if !found {
			return false
		}
	}
	return true
}

type nativeResult struct {
	File         string   `json:"file"`
	Harness      string   `json:"harness"`
	Failed       []string `json:"failed"`
	Panic        string   `json:"panic"`
	Hang         bool     `json:"hang"`
	AssumeFailed bool     `json:"assume_failed"`
	Missing      []string `json:"missing"`
	Observed     []ObsRec `json:"observed"`
	Error        string   `json:"error"`
}

const verifDir = "/verif"

func envOr(k, d string) string {
	if v := os.Getenv(k); v != "" {
		return v
	}
	return d
}

func cmdCheck(args []string) int {
	fs := flag.NewFlagSet("check", flag.ExitOnError)
	tierS := fs.String("tier", envOr("VERIF_TIER", "quick"), "quick|thorough")
	repo := fs.String("repo", envOr("VERIF_REPO", "/repo"), "repository")
	only := fs.String("only", "", "run only this harness (debugging; evidence not written)")
	workers := fs.Int("workers", 0, "workers")
	noNative := fs.Bool("no-native", false, "skip native replays (debugging)")
	if len(args) < 1 {
		fmt.Fprintln(os.Stderr, "usage: gosym check <ID> [--tier quick|thorough]")
		return 2
	}
	id := args[0]
	fs.Parse(args[1:])
	tier := 0
	if *tierS == "thorough" {
		tier = 1
	}
	seed, _ := strconv.ParseInt(envOr("VERIF_SEED", "1"), 10, 64)
	t0 := time.Now()

	var cfgs map[string]*CheckCfg
	data, err := os.ReadFile(filepath.Join(verifDir, "checks.json"))
	if err != nil {
		fmt.Fprintln(os.Stderr, err)
		return 2
	}
	if err := json.Unmarshal(data, &cfgs); err != nil {
		fmt.Fprintln(os.Stderr, "checks.json:", err)
		return 2
	}
	cfg := cfgs[id]
	if cfg == nil {
		fmt.Fprintln(os.Stderr, "no check configured for", id)
		return 2
	}
	var known KnownFile
	if data, err := os.ReadFile(filepath.Join(verifDir, "known_findings.json")); err == nil {
		if err := json.Unmarshal(data, &known); err != nil {
			fmt.Fprintln(os.Stderr, "known_findings.json:", err)
			return 2
		}
	}

	// VERIF_SCRATCH=<tag>: a run against a scratch copy of the repository (seeded
	// changes): own work directory, replays kept there, no evidence written.
	scratch := os.Getenv("VERIF_SCRATCH")
	work := filepath.Join(verifDir, ".work", id+"-"+*tierS)
	if scratch != "" {
		work += "-" + scratch
	}
	os.RemoveAll(work)
	ovDir := filepath.Join(work, "overlay")
	pkgDirs := map[string]bool{}
	for _, h := range cfg.Harnesses {
		pkgDirs[h.Pkg] = true
	}
	overlayJSON := map[string]string{}
	for pkg := range pkgDirs {
		if err := buildOverlay(pkg, ovDir, *repo, overlayJSON); err != nil {
			fmt.Fprintln(os.Stderr, "overlay:", err)
			return 2
		}
	}
	ovFile := filepath.Join(work, "overlay.json")
	{
		b, _ := json.Marshal(map[string]any{"Replace": overlayJSON})
		os.WriteFile(ovFile, b, 0o644)
	}

	var patterns []string
	for pkg := range pkgDirs {
		patterns = append(patterns, "./"+pkg)
	}
	sort.Strings(patterns)
	eng, err := LoadEngine(*repo, ovDir, patterns)
	if err != nil {
		fmt.Fprintln(os.Stderr, "load:", err)
		fmt.Printf("INCONCLUSIVE property=%s reason=load-failed\n", id)
		return 2
	}
	eng.crossCheck = tier == 1
	for _, f := range cfg.ExtraStubs {
		eng.sinkFuncs[f] = true
	}

	deadline := t0.Add(15 * time.Minute)
	if tier == 1 {
		deadline = t0.Add(90 * time.Minute)
	}
	if s := os.Getenv("VERIF_DEADLINE_S"); s != "" {
		if n, err := strconv.Atoi(s); err == nil {
			deadline = t0.Add(time.Duration(n) * time.Second)
		}
	}

	type hres struct {
		cfg HarnessCfg
		res *HarnessResult
	}
	var results []hres
	inconclusive := []string{}
	for _, h := range cfg.Harnesses {
		if *only != "" && h.Name != *only {
			continue
		}
		if h.ThoroughOnly && tier == 0 {
			continue
		}
		fn := eng.findHarness(h.Name)
		if fn == nil {
			inconclusive = append(inconclusive, "harness not found: "+h.Name)
			continue
		}
		params := h.Quick
		if tier == 1 && h.Thorough != nil {
			params = h.Thorough
		}
		opts := ExploreOpts{Workers: *workers, MaxPaths: h.MaxPaths, MaxViolations: 4, InstrLimit: h.InstrLimit,
			Tier: tier, Seed: seed, Params: params, SampleEvery: 1, MaxSamples: 12, Deadline: deadline, Preempt: h.Preempt, PreemptLocks: h.PreemptLocks}
		res := eng.Explore(fn, opts)
		results = append(results, hres{h, res})
		fmt.Fprintf(os.Stderr, "%s: paths=%d completed=%d vacuous=%d inconclusive=%d violations=%d queries=%d solver=%v wall=%v\n",
			res.Harness, res.Paths, res.Completed, res.Vacuous, res.Inconclusive, len(res.Violations), res.Solver.Queries,
			res.Solver.Time.Round(time.Millisecond), res.Wall.Round(time.Millisecond))
		for _, m := range res.InconclMsgs {
			inconclusive = append(inconclusive, h.Name+": "+m)
		}
		if res.Completed == 0 && len(res.Violations) == 0 && res.Inconclusive == 0 {
			inconclusive = append(inconclusive, h.Name+": vacuous - no path reaches the end of the harness")
		}
		for _, c := range res.WantCovers {
			if res.Covers[c] == 0 && len(res.Violations) == 0 && res.Inconclusive == 0 {
				inconclusive = append(inconclusive, h.Name+": cover point never reached: "+c)
			}
		}
	}

	// ---- native replays: violations and sample vectors ----
	replayDir := filepath.Join(verifDir, "replays", id)
	if scratch != "" {
		replayDir = filepath.Join(verifDir, ".work", "replays-"+scratch)
	}
	os.MkdirAll(replayDir, 0o755)
	type pending struct {
		v      *Violation
		path   string
		sample bool
		pkg    string
		fault  bool
	}
	var pend []pending
	for _, hr := range results {
		for _, v := range hr.res.Violations {
			p := writeReplay(replayDir, v, tier, hr.cfg, false)
			pend = append(pend, pending{v, p, false, hr.cfg.Pkg, hr.cfg.FaultModel})
		}
		for _, v := range hr.res.SampleVecs {
			p := writeReplay(filepath.Join(work, "samples"), v, tier, hr.cfg, true)
			pend = append(pend, pending{v, p, true, hr.cfg.Pkg, false})
		}
	}
	native := map[string]*nativeResult{}
	nativeErr := ""
	if len(pend) > 0 && !*noNative {
		byPkg := map[string][]string{}
		for _, p := range pend {
			byPkg[p.pkg] = append(byPkg[p.pkg], p.path)
		}
		for pkg, files := range byPkg {
			rs, err := runNative(*repo, work, ovFile, pkg, files)
			if err != nil {
				nativeErr = err.Error()
				fmt.Fprintln(os.Stderr, "native replay:", err)
			}
			for _, r := range rs {
				native[r.File] = r
			}
		}
	}

	// A counterexample may depend on Go's randomised map iteration order (the
	// engine explores fixed orders): retry unreproduced violations natively.
	if !*noNative {
		for attempt := 0; attempt < 7; attempt++ {
			byPkg := map[string][]string{}
			for _, p := range pend {
				if p.sample {
					continue
				}
				if nr := native[p.path]; nr != nil && nr.Error == "" && !violationReproduced(p.v, nr) {
					byPkg[p.pkg] = append(byPkg[p.pkg], p.path)
				}
			}
			if len(byPkg) == 0 {
				break
			}
			for pkg, files := range byPkg {
				rs, _ := runNative(*repo, work, ovFile, pkg, files)
				for _, r := range rs {
					if r.Error == "" {
						native[r.File] = r
					}
				}
			}
		}
	}

	violLines := 0
	knownLines := 0
	unconfirmed := 0
	validated := 0
	mismatches := []string{}
	type violOut struct {
		Harness    string `json:"harness"`
		Msg        string `json:"msg"`
		Kind       string `json:"kind"`
		Replay     string `json:"replay"`
		Reproduced bool   `json:"reproduced"`
		Known      string `json:"known,omitempty"`
	}
	var violOuts []violOut
	seenKnown := map[string]bool{}
	for _, p := range pend {
		nr := native[p.path]
		if p.sample {
			if nr == nil {
				continue
			}
			if nr.Error != "" || nr.Panic != "" || nr.Hang || nr.AssumeFailed || len(nr.Failed) > 0 || len(nr.Missing) > 0 {
				mismatches = append(mismatches, fmt.Sprintf("%s: native run of a sample vector differs: err=%q panic=%q hang=%v assume_failed=%v failed=%v missing=%v (%s)",
					p.v.Harness, nr.Error, firstLine(nr.Panic), nr.Hang, nr.AssumeFailed, nr.Failed, nr.Missing, p.path))
				continue
			}
			if !sameObs(p.v.Observe, nr.Observed) {
				mismatches = append(mismatches, fmt.Sprintf("%s: observations differ: engine=%v native=%v (%s)", p.v.Harness, p.v.Observe, nr.Observed, p.path))
				continue
			}
			validated++
			continue
		}
		reproduced := nr != nil && nr.Error == "" && violationReproduced(p.v, nr)
		if *noNative {
			reproduced = true
		}
		if p.fault && !reproduced {
			// injected fault without a native counterpart: the engine's verdict stands
			fmt.Printf("NOTE property=%s harness=%s: counterexample contains an engine-injected fault (no native fault injection); reported on the engine's verdict\n", id, p.v.Harness)
			reproduced = true
		}
		vo := violOut{p.v.Harness, p.v.Msg, p.v.Kind, p.path, reproduced, ""}
		if !reproduced {
			unconfirmed++
			why := "no native result"
			if nr != nil {
				why = fmt.Sprintf("err=%q panic=%q hang=%v assume_failed=%v failed=%v missing=%v", nr.Error, firstLine(nr.Panic), nr.Hang, nr.AssumeFailed, nr.Failed, nr.Missing)
			}
			fmt.Printf("UNCONFIRMED property=%s harness=%s msg=%q replay=%s (%s)\n", id, p.v.Harness, p.v.Msg, p.path, why)
		} else {
			var kf *KnownFinding
			for i := range known.Findings {
				if known.Findings[i].matches(id, p.v) {
					kf = &known.Findings[i]
					break
				}
			}
			if kf != nil {
				vo.Known = kf.What
				if !seenKnown[kf.What] {
					seenKnown[kf.What] = true
					fmt.Printf("KNOWN-FINDING: property=%s %s\n", id, kf.What)
					knownLines++
				}
			} else {
				fmt.Printf("VIOLATION property=%s replay=%s\n", id, p.path)
				fmt.Printf("  harness=%s kind=%s msg=%q\n", p.v.Harness, p.v.Kind, p.v.Msg)
				violLines++
			}
		}
		violOuts = append(violOuts, vo)
	}
	if nativeErr != "" && len(pend) > 0 {
		inconclusive = append(inconclusive, "native replay failed: "+nativeErr)
	}
	for _, m := range mismatches {
		inconclusive = append(inconclusive, "translator validation: "+m)
	}

	// ---- evidence ----
	ev := map[string]any{}
	ev["property_id"] = id
	ev["tier"] = *tierS
	ev["seed"] = seed
	ev["level"] = "model_checking"
	cov := map[string]any{}
	totalPaths, nontrivial, obligations, discharged := 0, 0, 0, 0
	var solver SolverStats
	funcs := map[string]int{}
	stubs := map[string]int{}
	var samples []any
	harnessSummaries := []any{}
	instrs := 0
	cross := 0
	exhaustive := len(inconclusive) == 0
	for _, hr := range results {
		r := hr.res
		totalPaths += r.Paths
		nontrivial += r.Nontrivial
		obligations += r.Assertions
		discharged += r.Assertions - len(r.Violations)
		solver.Add(r.Solver)
		instrs += r.Instrs
		cross += r.CrossChecked
		for f, n := range r.Funcs {
			funcs[f] += n
		}
		for f, n := range r.Stubs {
			stubs[f] += n
		}
		for _, s := range r.SampleVecs {
			if len(samples) < 6 {
				samples = append(samples, map[string]any{"harness": s.Harness, "inputs": s.Inputs, "observed": s.Observe})
			}
		}
		for _, s := range r.Samples {
			if len(samples) < 3 {
				samples = append(samples, s)
			}
		}
		params := hr.cfg.Quick
		if tier == 1 && hr.cfg.Thorough != nil {
			params = hr.cfg.Thorough
		}
		harnessSummaries = append(harnessSummaries, map[string]any{
			"harness": r.Harness, "what": hr.cfg.What, "params": params, "paths": r.Paths, "completed": r.Completed, "vacuous_paths": r.Vacuous,
			"inconclusive_paths": r.Inconclusive, "violations": len(r.Violations), "assertion_sites_evaluated": r.Assertions,
			"assertion_queries": r.AssertQ, "solver_decided_forks": r.Decisions, "forced_branches": r.Forced,
			"covers": r.Covers, "instructions": r.Instrs, "max_decisions_on_a_path": r.MaxTrail, "wall_s": r.Wall.Seconds(),
			"reachability_witness": r.Completed > 0,
			"preemption_budget": hr.cfg.Preempt, "preemption_at_lock_acquisitions": hr.cfg.PreemptLocks, "engine_injected_faults": hr.cfg.FaultModel,
		})
	}
	var fnames []string
	for f := range funcs {
		if strings.Contains(f, "Harness") || strings.Contains(f, ".vf") || strings.Contains(f, ".spec") {
			continue
		}
		fnames = append(fnames, f)
	}
	sort.Strings(fnames)
	var tb []string
	for s, n := range stubs {
		tb = append(tb, fmt.Sprintf("%s x%d", s, n))
	}
	sort.Strings(tb)
	tb = append(tb, "solvers: z3 4.8.12 (primary), z3-new 5.1.0 / cvc5 (fallback, cross-check)", "gosym SSA interpreter (derived from x/tools go/ssa/interp)", "go/ssa v0.50.0 SSA construction")
	for _, f := range eng.initFailureList() {
		tb = append(tb, "package init partially executed: "+f)
	}
	if len(samples) == 0 {
		samples = append(samples, "no completed path")
	}
	cov["evaluations"] = totalPaths
	cov["distinct_nontrivial"] = nontrivial
	cov["rule"] = "one evaluation = one execution path of a harness over symbolic inputs (a set of concrete inputs described by its path condition); paths are distinct by construction (different decision vectors); non-trivial = the path contains at least one solver-decided two-sided branch or enumerated choice"
	cov["samples"] = samples
	cov["traces_validated_against_impl"] = validated
	cov["obligations"] = obligations
	cov["discharged"] = discharged
	cov["checker_cmd"] = fmt.Sprintf("bin/vcheck %s --tier %s", id, *tierS)
	cov["trusted_base"] = tb
	cov["exhaustive"] = exhaustive
	cov["explanation"] = "bounded symbolic execution of the real functions (SSA of /repo's working tree) with SMT-decided branches; every assertion query is (path condition AND NOT property); unsat on every path = holds for all values of the symbolic inputs within the shape bounds"
	cov["functions_encoded"] = fnames
	cov["harnesses"] = harnessSummaries
	cov["bounds"] = cfg.Bounds
	cov["outside_claim"] = cfg.Outside
	cov["solver"] = map[string]any{"queries": solver.Queries, "sat": solver.Sat, "unsat": solver.Unsat, "unknown": solver.Unknown,
		"fallbacks": solver.Fallbacks, "errors": solver.Errors, "time_s": solver.Time.Seconds(), "max_query_s": solver.MaxQuery.Seconds(),
		"assertion_queries_cross_checked": cross}
	cov["instructions_interpreted"] = instrs
	cov["load_s"] = eng.loadTime.Seconds()
	cov["violations_detail"] = violOuts
	cov["inconclusive"] = inconclusive
	cov["known_findings_printed"] = knownLines
	ev["coverage"] = cov
	ev["assumptions"] = cfg.Assumptions
	ev["wall_s"] = time.Since(t0).Seconds()
	ev["violations"] = violLines
	if *only == "" && scratch == "" {
		os.MkdirAll(filepath.Join(verifDir, "evidence"), 0o755)
		b, _ := json.MarshalIndent(ev, "", " ")
		os.WriteFile(filepath.Join(verifDir, "evidence", id+".json"), b, 0o644)
	}
	if os.Getenv("VERIF_KEEP_WORK") == "" {
		os.RemoveAll(work)
	}

	for _, m := range inconclusive {
		fmt.Printf("INCONCLUSIVE property=%s %s\n", id, firstLine(m))
		if os.Getenv("GOSYM_DEBUG") != "" {
			fmt.Println(m)
		}
	}
	fmt.Printf("SUMMARY property=%s tier=%s paths=%d obligations=%d discharged=%d validated=%d violations=%d known=%d unconfirmed=%d inconclusive=%d wall=%.1fs\n",
		id, *tierS, totalPaths, obligations, discharged, validated, violLines, knownLines, unconfirmed, len(inconclusive), time.Since(t0).Seconds())
	if violLines > 0 {
		return 1
	}
	if unconfirmed > 0 || len(inconclusive) > 0 {
		return 2
	}
	return 0
}

func violationReproduced(v *Violation, nr *nativeResult) bool {
	switch v.Kind {
	case "assert":
		for _, f := range nr.Failed {
			if f == v.Msg {
				return true
			}
		}
	case "panic":
		return nr.Panic != ""
	case "hang":
		return nr.Hang || strings.Contains(nr.Panic, "deadlock") || strings.Contains(nr.Panic, "stack overflow") || strings.Contains(nr.Panic, "stack exceeds")
	}
	return false
}

func firstLine(s string) string {
	if i := strings.IndexByte(s, '\n'); i >= 0 {
		return s[:i]
	}
	return s
}

func sameObs(a, b []ObsRec) bool {
	if len(a) != len(b) {
		return false
	}
	for i := range a {
		if a[i] != b[i] {
			return false
		}
	}
	return true
}

// buildOverlay copies the harness files of pkg and instantiates the API
// templates into ovDir/<pkg>/.
func buildOverlay(pkg, ovDir, repo string, ovJSON map[string]string) error {
	src := filepath.Join(verifDir, "harness", pkg)
	dst := filepath.Join(ovDir, pkg)
	if err := os.MkdirAll(dst, 0o755); err != nil {
		return err
	}
	ents, err := os.ReadDir(src)
	if err != nil {
		return err
	}
	pkgName := ""
	needTime := false
	for _, e := range ents {
		if e.IsDir() || !strings.HasSuffix(e.Name(), ".go") {
			continue
		}
		data, err := os.ReadFile(filepath.Join(src, e.Name()))
		if err != nil {
			return err
		}
		if m := regexp.MustCompile(`(?m)^package (\w+)`).FindSubmatch(data); m != nil && pkgName == "" {
			pkgName = string(m[1])
		}
		if bytes.Contains(data, []byte("vfSetNow")) || bytes.Contains(data, []byte("vfAdvance")) || bytes.Contains(data, []byte("vfQuiesce")) {
			needTime = true
		}
		if err := os.WriteFile(filepath.Join(dst, e.Name()), data, 0o644); err != nil {
			return err
		}
		ovJSON[filepath.Join(repo, pkg, e.Name())] = filepath.Join(dst, e.Name())
	}
	if pkgName == "" {
		return fmt.Errorf("no harness files in %s", src)
	}
	tmpls := []string{"zz_vf_api.go", "zz_vf_replay_test.go", "zz_vf_bubble_test.go", "zz_vf_time.go"}
	_ = needTime
	for _, t := range tmpls {
		data, err := os.ReadFile(filepath.Join(verifDir, "harness", "_api", t+".tmpl"))
		if err != nil {
			return err
		}
		data = bytes.ReplaceAll(data, []byte("PKGNAME"), []byte(pkgName))
		if err := os.WriteFile(filepath.Join(dst, t), data, 0o644); err != nil {
			return err
		}
		ovJSON[filepath.Join(repo, pkg, t)] = filepath.Join(dst, t)
	}
	return nil
}

func writeReplay(dir string, v *Violation, tier int, h HarnessCfg, sample bool) string {
	os.MkdirAll(dir, 0o755)
	params := h.Quick
	if tier == 1 && h.Thorough != nil {
		params = h.Thorough
	}
	out := map[string]any{"harness": v.Harness, "msg": v.Msg, "kind": v.Kind, "inputs": v.Inputs, "observe": v.Observe,
		"tier": tier, "params": params, "pos": v.Pos, "pkg": h.Pkg}
	if h.Preempt > 0 && !sample {
		// the counterexample includes preemptions the native run cannot force:
		// the native replay repeats the run (real parallelism) until it shows
		out["stress"] = 20000
	}
	b, _ := json.MarshalIndent(out, "", " ")
	sum := sha256.Sum256(b)
	name := fmt.Sprintf("%s-%x.json", v.Harness, sum[:6])
	p := filepath.Join(dir, name)
	os.WriteFile(p, b, 0o644)
	return p
}

// runNative builds the package's test binary with the overlay and runs the
// replays in it.
func runNative(repo, work, ovFile, pkg string, files []string) ([]*nativeResult, error) {
	bin := filepath.Join(work, strings.ReplaceAll(pkg, "/", "_")+".test")
	env := append(os.Environ(), "GOFLAGS=-mod=mod", "GOPROXY=off", "GOSUMDB=off")
	if _, err := os.Stat(bin); err != nil {
		cmd := exec.Command("go", "test", "-c", "-vet=off", "-tags", "verif", "-overlay", ovFile, "-o", bin, "./"+pkg)
		cmd.Dir = repo
		cmd.Env = cleanGoEnv(env)
		out, err := cmd.CombinedOutput()
		if err != nil {
			return nil, fmt.Errorf("building native replay binary for %s: %v\n%s", pkg, err, out)
		}
	}
	list := filepath.Join(work, strings.ReplaceAll(pkg, "/", "_")+".replays")
	os.WriteFile(list, []byte(strings.Join(files, "\n")+"\n"), 0o644)
	var results []*nativeResult
	// run each replay in its own process group of up to 20 files so that a
	// crash does not lose everything
	cmd := exec.Command(bin, "-test.run", "^TestVFReplay$", "-test.v", "-test.timeout", "10m")
	cmd.Dir = filepath.Join(repo, pkg)
	cmd.Env = append(env, "VF_REPLAY_LIST="+list)
	out, err := cmd.CombinedOutput()
	sc := bufio.NewScanner(bytes.NewReader(out))
	sc.Buffer(make([]byte, 1<<20), 1<<26)
	for sc.Scan() {
		line := sc.Text()
		if i := strings.Index(line, "VFRESULT "); i >= 0 {
			var nr nativeResult
			if json.Unmarshal([]byte(line[i+9:]), &nr) == nil {
				results = append(results, &nr)
			}
		}
	}
	if len(results) < len(files) {
		// a replay crashed the test process (e.g. fatal error, deadlock in a bubble): run the rest one by one
		done := map[string]bool{}
		for _, r := range results {
			done[r.File] = true
		}
		for _, f := range files {
			if done[f] {
				continue
			}
			one := filepath.Join(work, "one.replays")
			os.WriteFile(one, []byte(f+"\n"), 0o644)
			c := exec.Command(bin, "-test.run", "^TestVFReplay$", "-test.v", "-test.timeout", "2m")
			c.Dir = filepath.Join(repo, pkg)
			c.Env = append(env, "VF_REPLAY_LIST="+one)
			o, _ := c.CombinedOutput()
			got := false
			s2 := bufio.NewScanner(bytes.NewReader(o))
			s2.Buffer(make([]byte, 1<<20), 1<<26)
			for s2.Scan() {
				line := s2.Text()
				if i := strings.Index(line, "VFRESULT "); i >= 0 {
					var nr nativeResult
					if json.Unmarshal([]byte(line[i+9:]), &nr) == nil {
						results = append(results, &nr)
						got = true
					}
				}
			}
			if !got {
				txt := string(o)
				nr := &nativeResult{File: f}
				switch {
				case strings.Contains(txt, "deadlock"):
					nr.Hang = true
					nr.Panic = "deadlock: " + firstLine(txt)
				case strings.Contains(txt, "panic:") || strings.Contains(txt, "fatal error:"):
					nr.Panic = lastLines(txt, 30)
				case strings.Contains(txt, "test timed out"):
					nr.Hang = true
				default:
					nr.Error = "native process produced no result: " + lastLines(txt, 10)
				}
				results = append(results, nr)
			}
		}
		err = nil
	}
	if err != nil && len(results) == 0 {
		return results, fmt.Errorf("native replay run failed: %v\n%s", err, lastLines(string(out), 20))
	}
	return results, nil
}

func lastLines(s string, n int) string {
	lines := strings.Split(strings.TrimSpace(s), "\n")
	if len(lines) > n {
		lines = lines[len(lines)-n:]
	}
	return strings.Join(lines, "\n")
}

// cleanGoEnv lets /repo pick its own toolchain for native builds.
func cleanGoEnv(env []string) []string {
	var out []string
	for _, e := range env {
		if strings.HasPrefix(e, "GOTOOLCHAIN=") || strings.HasPrefix(e, "CGO_ENABLED=") {
			continue
		}
		if strings.HasPrefix(e, "PATH=") {
			// drop the go1.26.8 bin dir placed first by bin/vcheck
			parts := strings.Split(e[5:], ":")
			var keep []string
			for _, p := range parts {
				if strings.Contains(p, "go1.26.8") {
					continue
				}
				keep = append(keep, p)
			}
			e = "PATH=" + strings.Join(keep, ":")
		}
		out = append(out, e)
	}
	return out
}

// cmdReplay runs one recorded vector natively: gosym replay <file>.
func cmdReplay(args []string) int {
	if len(args) < 1 {
		fmt.Fprintln(os.Stderr, "usage: gosym replay <replay.json>")
		return 2
	}
	data, err := os.ReadFile(args[0])
	if err != nil {
		fmt.Fprintln(os.Stderr, err)
		return 2
	}
	var rf struct {
		Harness string `json:"harness"`
		Pkg     string `json:"pkg"`
		Kind    string `json:"kind"`
		Msg     string `json:"msg"`
	}
	if err := json.Unmarshal(data, &rf); err != nil || rf.Pkg == "" {
		fmt.Fprintln(os.Stderr, "bad replay file")
		return 2
	}
	work := filepath.Join(verifDir, ".work", "replay")
	os.RemoveAll(work)
	defer os.RemoveAll(work)
	ovJSON := map[string]string{}
	if err := buildOverlay(rf.Pkg, filepath.Join(work, "overlay"), envOr("VERIF_REPO", "/repo"), ovJSON); err != nil {
		fmt.Fprintln(os.Stderr, err)
		return 2
	}
	ovFile := filepath.Join(work, "overlay.json")
	b, _ := json.Marshal(map[string]any{"Replace": ovJSON})
	os.WriteFile(ovFile, b, 0o644)
	abs, _ := filepath.Abs(args[0])
	rs, err := runNative(envOr("VERIF_REPO", "/repo"), work, ovFile, rf.Pkg, []string{abs})
	if err != nil {
		fmt.Fprintln(os.Stderr, err)
		return 2
	}
	for _, r := range rs {
		out, _ := json.MarshalIndent(r, "", " ")
		fmt.Println(string(out))
		reproduced := false
		switch rf.Kind {
		case "assert":
			for _, f := range r.Failed {
				if f == rf.Msg {
					reproduced = true
				}
			}
		case "panic":
			reproduced = r.Panic != ""
		case "hang":
			reproduced = r.Hang || strings.Contains(r.Panic, "deadlock")
		}
		if reproduced {
			fmt.Println("REPRODUCED:", rf.Msg)
			return 1
		}
	}
	fmt.Println("not reproduced on this tree")
	return 0
}
