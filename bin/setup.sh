#!/bin/sh
# Builds the symbolic executor from files on disk only (offline).
export PATH=/opt/veriftools/go1.26.8/bin:$PATH
export GOFLAGS=-mod=mod GOPROXY=off GOSUMDB=off GOTOOLCHAIN=local CGO_ENABLED=0
cd /verif/engine && go build -o gosym . || exit 1
echo "gosym built"
