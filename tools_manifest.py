#!/usr/bin/env python3
"""Regenerates MANIFEST.json from checks.json + manifest_meta.json."""
import json, sys
checks = json.load(open('/verif/checks.json'))
meta = json.load(open('/verif/manifest_meta.json'))
props = [json.loads(l) for l in open('/verif/properties.jsonl')]
man = {
 "version": 1,
 "setup_cmd": "sh /verif/bin/setup.sh",
 "hooks": {
  "guard": "verif",
  "enable": "no source hooks: harness files (//go:build verif) are injected into the package directories of /repo through a go build overlay (go/packages Overlay for the symbolic executor, `go test -tags verif -overlay` for native replays)",
  "baseline_off_cmd": "cd /repo && go test -vet=off -count=1 -timeout 25m ./...",
  "source_commits": [],
  "add_only": True
 },
 "engines": [{
  "name": "gosym",
  "path": "/verif/engine",
  "serves_properties": sorted(checks.keys()),
  "kind_free_text": "symbolic executor for go/ssa (built from /repo's working tree on every run) with SMT-decided branches (z3 -in, push/pop; z3 5.1 and cvc5 as fallback/cross-check); harnesses are in-package Go functions; counterexamples are replayed natively with go test -overlay"
 }],
 "checks": [],
 "notes": meta.get("notes", ""),
 "not_applicable": []
}
for p in props:
    pid = p['id']
    if pid in checks:
        m = meta['checks'][pid]
        man['checks'].append({
         "property_id": pid,
         "quick_cmd": f"bin/vcheck {pid} --tier quick",
         "thorough_cmd": f"bin/vcheck {pid} --tier thorough",
         "evidence_file": f"/verif/evidence/{pid}.json",
         "replay_cmd_template": "bin/vreplay {path}",
         "engine": "gosym",
         "level_claimed": {"category": "model_checking", "text": m['text'], "design_ref": m.get('design_ref', 'DESIGN.md section 4 ' + pid)},
         "level_note": m['note'],
         "technique": m.get('technique', "bounded symbolic execution of the real Go code (go/ssa) with SMT (z3/cvc5) deciding every branch and assertion; counterexamples replayed natively")
        })
    else:
        man['not_applicable'].append({"property_id": pid, "reason": meta['not_applicable'].get(pid, "no solver-based check built yet for this property (work in progress)")})
json.dump(man, open('/verif/MANIFEST.json', 'w'), indent=1)
print("checks:", [c['property_id'] for c in man['checks']], "n/a:", [n['property_id'] for n in man['not_applicable']])
