//go:build verif

package consul

import (
	"context"
	"errors"
	"strconv"
	"sync"

	"github.com/go-kit/log"
	consul "github.com/hashicorp/consul/api"
)

// C07 - compare-and-swap is atomic (consul-compatible in-memory store).
// Schedules are reduced to interference points: before each backend call of
// caller A, "caller B" may perform complete successful updates through the real
// backend. Backend operations themselves are atomic under the store's mutex.

func init() { vfRegister("HarnessC07_ConsulCAS", HarnessC07_ConsulCAS) }

// vfIntCodec stores decimal integers.
type vfIntCodec struct{}

func (vfIntCodec) Decode(b []byte) (interface{}, error) {
	n, err := strconv.Atoi(string(b))
	return n, err
}
func (vfIntCodec) Encode(v interface{}) ([]byte, error) { return []byte(strconv.Itoa(v.(int))), nil }
func (vfIntCodec) CodecID() string                      { return "int" }

// vfInterfKV wraps the real mock store; before each Get/CAS of A it lets B
// write 0..2 times, and it records what A's calls did.
type vfInterfKV struct {
	*mockKV
	bWrites        int // total successful writes of B
	bSinceAGet     int // B's writes since A's last Get
	aCasOK, aCasNo int
	aLastWritten   string
	lastValue      string // value left by the last successful write (ghost)
	points         int
	maxPoints      int
}

func (k *vfInterfKV) interfere() {
	if k.points >= k.maxPoints {
		return
	}
	k.points++
	n := vfChoice("b_writes", 3)
	for i := 0; i < n; i++ {
		cur, _, _ := k.mockKV.Get("key", &consul.QueryOptions{})
		idx := uint64(0)
		v := 0
		if cur != nil {
			idx = cur.ModifyIndex
			v, _ = strconv.Atoi(string(cur.Value))
		}
		nv := strconv.Itoa(v + 100)
		ok, _, _ := k.mockKV.CAS(&consul.KVPair{Key: "key", Value: []byte(nv), ModifyIndex: idx}, nil)
		vfAssert(ok, "C07 an uncontended compare-and-swap succeeds")
		k.bWrites++
		k.bSinceAGet++
		k.lastValue = nv
	}
}

func (k *vfInterfKV) Get(key string, q *consul.QueryOptions) (*consul.KVPair, *consul.QueryMeta, error) {
	k.interfere()
	k.bSinceAGet = 0
	return k.mockKV.Get(key, q)
}

func (k *vfInterfKV) CAS(p *consul.KVPair, q *consul.WriteOptions) (bool, *consul.WriteMeta, error) {
	k.interfere()
	ok, m, err := k.mockKV.CAS(p, q)
	if ok {
		k.aCasOK++
		vfAssert(k.bSinceAGet == 0, "C07 a successful swap never overwrites an update it has not seen")
		k.aLastWritten = string(p.Value)
		k.lastValue = string(p.Value)
	} else {
		k.aCasNo++
	}
	return ok, m, err
}

var vfErrNoRetry = errors.New("give up")
var vfErrRetry = errors.New("try again")

func HarnessC07_ConsulCAS() {
	m := &mockKV{kvps: map[string]*consul.KVPair{}, logger: log.NewNopLogger()}
	m.cond = sync.NewCond(&m.mtx)
	start := vfU64("start_index")
	vfAssume(vfAnd(start >= 1, start <= 1<<62))
	m.current = start
	w := &vfInterfKV{mockKV: m, maxPoints: vfParam("points", 4)}
	c := &Client{kv: w, codec: vfIntCodec{}, cfg: Config{MaxCasRetries: vfParam("retries", 3)}, logger: log.NewNopLogger(), consulMetrics: newConsulMetrics(nil)}
	// optionally the key exists before A starts
	if vfChoice("preexisting", 2) == 1 {
		m.Put(&consul.KVPair{Key: "key", Value: []byte("7")}, nil)
		w.lastValue = "7"
	}
	mode := vfChoice("f", 4) // 0 increment, 1 decline, 2 fail without retry, 3 fail with retry
	var inputs []string
	f := func(in interface{}) (interface{}, bool, error) {
		s := "<nil>"
		v := 0
		if in != nil {
			v = in.(int)
			s = strconv.Itoa(v)
		}
		inputs = append(inputs, s)
		switch mode {
		case 1:
			return nil, false, nil
		case 2:
			return nil, false, vfErrNoRetry
		case 3:
			return nil, true, vfErrRetry
		}
		return v + 1, false, nil
	}
	err := c.cas(context.Background(), "key", f)
	vfObserve("err", err != nil)
	vfObserve("aCasOK", w.aCasOK)
	switch {
	case mode == 0 && err == nil:
		vfAssert(w.aCasOK == 1, "C07 a successful call wrote exactly once")
		last := inputs[len(inputs)-1]
		want := 1
		if last != "<nil>" {
			n, _ := strconv.Atoi(last)
			want = n + 1
		}
		vfAssert(w.aLastWritten == strconv.Itoa(want), "C07 a successful call applied its function to the value it read, which was the value left by the previous successful call")
		cur, _, _ := m.Get("key", &consul.QueryOptions{})
		vfAssert(cur != nil && string(cur.Value) == w.lastValue, "C07 the stored value reflects exactly the successful calls")
		vfCover("c07-consul-success")
	case mode == 0:
		vfAssert(w.aCasOK == 0, "C07 a call that reports failure left the stored value unchanged")
		vfAssert(w.aCasNo > 0, "C07 failure is reported only after contention")
		vfCover("c07-consul-contended")
	default:
		vfAssert(w.aCasOK == 0 && w.aCasNo == 0, "C07 a function that declines or fails writes nothing")
		if mode == 1 {
			vfAssert(err == nil, "C07 declining to write is not an error")
		} else {
			vfAssert(err != nil, "C07 a failing function makes the call fail")
		}
		vfCover("c07-consul-nowrite")
	}
	cur, _, _ := m.Get("key", &consul.QueryOptions{})
	if cur != nil {
		vfAssert(string(cur.Value) == w.lastValue, "C07 no successful update is lost")
	} else {
		vfAssert(w.lastValue == "", "C07 no successful update is lost")
	}
}


// HarnessC07_ConsulConcurrent: two callers increment the same key at the same
// time; a preemption may occur before any mutex acquisition of the store, so
// the check-and-write of the store's compare-and-swap is exercised for
// atomicity. Afterwards the value counts exactly the successful calls.
func init() { vfRegisterBubble("HarnessC07_ConsulConcurrent", HarnessC07_ConsulConcurrent) }

func HarnessC07_ConsulConcurrent() {
	m := &mockKV{kvps: map[string]*consul.KVPair{}, logger: log.NewNopLogger()}
	m.cond = sync.NewCond(&m.mtx)
	start := vfU64("start_index")
	vfAssume(vfAnd(start >= 1, start <= 1<<62))
	m.current = start
	c := &Client{kv: m, codec: vfIntCodec{}, cfg: Config{MaxCasRetries: 3}, logger: log.NewNopLogger(), consulMetrics: newConsulMetrics(nil)}
	if vfChoice("preexisting", 2) == 1 {
		m.Put(&consul.KVPair{Key: "key", Value: []byte("0")}, nil)
	}
	inc := func(in interface{}) (interface{}, bool, error) {
		v := 0
		if in != nil {
			v = in.(int)
		}
		return v + 1, true, nil
	}
	var mu sync.Mutex
	okCalls, done := 0, 0
	n := vfParam("callers", 2)
	for i := 0; i < n; i++ {
		go func() {
			err := c.cas(context.Background(), "key", inc)
			mu.Lock()
			if err == nil {
				okCalls++
			}
			done++
			mu.Unlock()
		}()
	}
	vfQuiesce()
	mu.Lock()
	d, ok := done, okCalls
	mu.Unlock()
	vfAssert(d == n, "C07 concurrent calls finish")
	cur, _, _ := m.Get("key", &consul.QueryOptions{})
	got := 0
	if cur != nil {
		got, _ = strconv.Atoi(string(cur.Value))
	}
	vfObserve("ok", ok)
	vfAssert(got == ok, "C07 the final value reflects exactly the successful calls, in some order (no update is lost or applied twice)")
	vfCover("c07-consul-concurrent-done")
}
