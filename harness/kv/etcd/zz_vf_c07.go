//go:build verif

package etcd

import (
	"context"
	"errors"
	"strconv"

	"github.com/go-kit/log"
)

// C07 - compare-and-swap on the etcd client against its in-process mock.
// Caller B completes an update between A's read and A's transaction (inside
// A's callback) on a chosen subset of A's attempts.

func init() { vfRegister("HarnessC07_EtcdCAS", HarnessC07_EtcdCAS) }

type vfIntCodec struct{}

func (vfIntCodec) Decode(b []byte) (interface{}, error) {
	n, err := strconv.Atoi(string(b))
	return n, err
}
func (vfIntCodec) Encode(v interface{}) ([]byte, error) { return []byte(strconv.Itoa(v.(int))), nil }
func (vfIntCodec) CodecID() string                      { return "int" }

var vfErrNoRetry = errors.New("give up")
var vfErrRetry = errors.New("try again")

func HarnessC07_EtcdCAS() {
	retries := vfParam("retries", 3)
	m := newMockKV()
	c := &Client{cfg: Config{MaxRetries: retries}, codec: vfIntCodec{}, cli: m, logger: log.NewNopLogger()}
	ctx := context.Background()
	last := ""
	if vfChoice("preexisting", 2) == 1 {
		_, err := m.Put(ctx, "key", "7")
		vfAssert(err == nil, "C07 put succeeds")
		last = "7"
	}
	mode := vfChoice("f", 4) // 0 increment, 1 decline, 2 fail without retry, 3 fail with retry
	attempts := 0
	bWrites := 0
	lastInput := ""
	bAfterLastRead := false
	f := func(in interface{}) (interface{}, bool, error) {
		attempts++
		v := 0
		lastInput = "<nil>"
		if in != nil {
			v = in.(int)
			lastInput = strconv.Itoa(v)
		}
		bAfterLastRead = false
		// caller B completes an update between A's read and A's write
		if vfChoice("b_interferes", 2) == 1 {
			nv := strconv.Itoa(1000 + bWrites)
			_, err := m.Put(ctx, "key", nv)
			vfAssert(err == nil, "C07 put succeeds")
			bWrites++
			last = nv
			bAfterLastRead = true
		}
		switch mode {
		case 1:
			return nil, false, nil
		case 2:
			return nil, false, vfErrNoRetry
		case 3:
			return nil, true, vfErrRetry
		}
		return v + 1, false, nil
	}
	err := c.CAS(ctx, "key", f)
	vfObserve("err", err != nil)
	resp, gerr := m.Get(ctx, "key")
	vfAssert(gerr == nil, "C07 get succeeds")
	cur := ""
	if len(resp.Kvs) > 0 {
		cur = string(resp.Kvs[0].Value)
	}
	switch {
	case mode == 0 && err == nil:
		vfAssert(!bAfterLastRead, "C07 a call that reports success was not overtaken by an update it has not seen")
		want := 1
		if lastInput != "<nil>" {
			n, _ := strconv.Atoi(lastInput)
			want = n + 1
		}
		vfAssert(cur == strconv.Itoa(want), "C07 a successful call applied its function to the value left by the previous successful call, and the final value reflects it")
		vfCover("c07-etcd-success")
	case mode == 0:
		vfAssert(cur == last, "C07 a call that reports failure leaves the stored value unchanged")
		vfAssert(attempts == retries, "C07 failure is reported only after every attempt was contended")
		vfCover("c07-etcd-contended")
	default:
		vfAssert(cur == last, "C07 a function that declines or fails writes nothing")
		if mode == 1 {
			vfAssert(err == nil, "C07 declining to write is not an error")
		} else {
			vfAssert(err != nil, "C07 a failing function makes the call fail")
		}
		vfCover("c07-etcd-nowrite")
	}
}
