//go:build verif

package memberlist

import (
	"context"
	"sync"
	"errors"
	"sort"
	"time"

	"github.com/go-kit/log"

	"github.com/grafana/dskit/kv/codec"
)

// Harnesses on a detached gossip KV (NewKV without starting the service: no
// memberlist instance, no transport): C06 supersession rule and hostile input,
// C04 tombstones invisible to readers / retention, C07 CAS on one node.

func init() {
	vfRegister("HarnessC06_Invalidates", HarnessC06_Invalidates)
	vfRegisterBubble("HarnessC06_HostileNotify", HarnessC06_HostileNotify)
	vfRegisterBubble("HarnessC06_HostileRemoteState", HarnessC06_HostileRemoteState)
	vfRegisterBubble("HarnessC04_KVTombstones", HarnessC04_KVTombstones)
	vfRegisterBubble("HarnessC07_MemberlistCAS", HarnessC07_MemberlistCAS)
}

// vfLWW is a small last-writer-wins map with tombstones, implementing Mergeable.
type vfEntry struct {
	ts   int64
	dead bool
}

type vfLWW struct {
	m map[string]vfEntry
}

func (a *vfLWW) Merge(o Mergeable, localCAS bool) (Mergeable, error) {
	other, ok := o.(*vfLWW)
	if !ok || other == nil {
		return nil, nil
	}
	ch := &vfLWW{m: map[string]vfEntry{}}
	for k, e := range other.m {
		cur, has := a.m[k]
		if !has || e.ts > cur.ts || (e.ts == cur.ts && e.dead && !cur.dead) {
			a.m[k] = e
			ch.m[k] = e
		}
	}
	if localCAS {
		for k, cur := range a.m {
			if _, has := other.m[k]; !has && !cur.dead {
				cur.dead = true
				cur.ts = time.Now().Unix()
				a.m[k] = cur
				ch.m[k] = cur
			}
		}
	}
	if len(ch.m) == 0 {
		return nil, nil
	}
	return ch, nil
}

func (a *vfLWW) MergeContent() []string {
	var out []string
	for k := range a.m {
		out = append(out, k)
	}
	sort.Strings(out)
	return out
}

func (a *vfLWW) RemoveTombstones(limit time.Time) (total, removed int) {
	for k, e := range a.m {
		if e.dead {
			if limit.IsZero() || time.Unix(e.ts, 0).Before(limit) {
				delete(a.m, k)
				removed++
			} else {
				total++
			}
		}
	}
	return
}

func (a *vfLWW) Clone() Mergeable {
	c := &vfLWW{m: map[string]vfEntry{}}
	for k, e := range a.m {
		c.m[k] = e
	}
	return c
}

// vfRejectCodec has a known id but rejects every value (hostile payloads).
type vfRejectCodec struct{ decodes int }

var vfErrDecode = errors.New("cannot decode")

func (c *vfRejectCodec) Decode([]byte) (interface{}, error) { c.decodes++; return nil, vfErrDecode }
func (c *vfRejectCodec) Encode(interface{}) ([]byte, error)  { return []byte("x"), nil }
func (c *vfRejectCodec) CodecID() string                     { return "c" }

// vfLWWCodec never touches the bytes: values travel out of band (single node).
type vfLWWCodec struct{}

func (vfLWWCodec) Decode([]byte) (interface{}, error) { return nil, vfErrDecode }
func (vfLWWCodec) Encode(interface{}) ([]byte, error)  { return []byte("lww"), nil }
func (vfLWWCodec) CodecID() string                     { return "lww" }

func vfDetachedKV(left time.Duration, codecs ...codec.Codec) *KV {
	var cfg KVConfig
	cfg.LeftIngestersTimeout = left
	cfg.Codecs = codecs
	cfg.ProcessedMessagesQueueSize = 4
	m := NewKV(cfg, log.NewNopLogger(), nil, nil)
	m.delegateReady.Store(true)
	return m
}

// vfSeed stores a first value for key the way a first write leaves it (version
// 1), without going through any internal function whose signature may change.
func vfSeed(m *KV, key string, v Mergeable, codecID string) {
	m.storeMu.Lock()
	m.store[key] = ValueDesc{value: v, Version: 1, CodecID: codecID}
	m.storeMu.Unlock()
}

// ---- C06: a queued update is superseded only by an update that contains it ----

func HarnessC06_Invalidates() {
	names := []string{"a", "b", "c"}
	mk := func(tag string) ringBroadcast {
		var content []string
		for _, n := range names {
			if vfBool("has_" + tag + n) {
				content = append(content, n)
			}
		}
		key := "k1"
		if vfBool("otherkey_" + tag) {
			key = "k2"
		}
		return ringBroadcast{key: key, content: content, version: uint(vfU64("ver_" + tag))}
	}
	nb, ob := mk("new"), mk("old")
	got := nb.Invalidates(ob)
	contains := true
	for _, o := range ob.content {
		found := false
		for _, n := range nb.content {
			if n == o {
				found = true
			}
		}
		contains = contains && found
	}
	want := vfAnd(nb.key == ob.key && contains, nb.version >= ob.version)
	vfObserve("invalidates", got)
	vfAssert(got == want, "C06 a queued update is superseded exactly by an update of the same key that contains it and is not older")
	if got {
		vfCover("c06-invalidates-yes")
	} else {
		vfCover("c06-invalidates-no")
	}
}

func vfStoreSnapshot(m *KV) (n int, ver uint) {
	m.storeMu.Lock()
	defer m.storeMu.Unlock()
	for _, v := range m.store {
		n++
		ver += v.Version
	}
	return
}

// HarnessC06_HostileNotify: an arbitrary byte string delivered as a gossip
// message never changes stored state and never crashes the node.
func HarnessC06_HostileNotify() {
	n := vfChoice("len", vfParam("len", 5)+1)
	msg := vfBytes("msg", n)
	rc := &vfRejectCodec{}
	m := vfDetachedKV(0, rc)
	// one legitimate value is already stored
	vfSeed(m, "k", &vfLWW{m: map[string]vfEntry{"a": {ts: 5}}}, "c")
	n0, v0 := vfStoreSnapshot(m)
	m.NotifyMsg(msg)
	vfQuiesce() // let the per-key worker (if any) process the update
	n1, v1 := vfStoreSnapshot(m)
	vfAssert(n0 == n1 && v0 == v1, "C06 malformed, truncated or undecodable messages are dropped without changing stored state")
	vfCover("c06-hostile-notify-done")
}

// HarnessC06_HostileRemoteState: an arbitrary byte string delivered as a
// full-state exchange never changes stored state and never crashes the node.
func HarnessC06_HostileRemoteState() {
	n := vfChoice("len", vfParam("len", 5)+1)
	data := vfBytes("data", n)
	rc := &vfRejectCodec{}
	m := vfDetachedKV(0, rc)
	vfSeed(m, "k", &vfLWW{m: map[string]vfEntry{"a": {ts: 5}}}, "c")
	n0, v0 := vfStoreSnapshot(m)
	m.MergeRemoteState(data, false)
	vfQuiesce()
	n1, v1 := vfStoreSnapshot(m)
	vfAssert(n0 == n1 && v0 == v1, "C06 a malformed full-state exchange is dropped without changing stored state")
	vfCover("c06-hostile-state-done")
}

// ---- C04 (KV layer): tombstones are never visible to readers, are forwarded,
// and are discarded only once older than the retention ----

func HarnessC04_KVTombstones() {
	now := vfI64("now")
	vfAssume(vfAnd(now >= vfEpoch, now <= vfEpoch+(1<<30)))
	vfSetNow(now)
	leftS := vfI64("retention_s")
	vfAssume(vfAnd(leftS >= 1, leftS <= 1<<20))
	wc := &vfWireCodec{}
	nd := vfClusterNodeCfg(2, wc, time.Duration(leftS)*time.Second)
	m := nd.kv
	ctx, cancel := context.WithCancel(context.Background())
	var mu sync.Mutex
	var watched, prefWatched *vfLWW
	go m.WatchKey(ctx, "k", wc, func(v interface{}) bool {
		mu.Lock()
		watched, _ = v.(*vfLWW)
		mu.Unlock()
		return true
	})
	go m.WatchPrefix(ctx, "", wc, func(_ string, v interface{}) bool {
		mu.Lock()
		prefWatched, _ = v.(*vfLWW)
		mu.Unlock()
		return true
	})
	vfQuiesce()
	// local state: one live entry
	vfSeed(m, "k", &vfLWW{m: map[string]vfEntry{"live": {ts: now - 10}}}, wc.CodecID())
	// an update carrying a tombstone with an arbitrary age arrives from a peer,
	// by gossip or inside a full-state exchange
	tts := vfI64("tomb_ts")
	vfAssume(vfAnd(tts >= now-(1<<21), tts <= now))
	in := &vfLWW{m: map[string]vfEntry{"gone": {ts: tts, dead: true}}}
	val, err := wc.Encode(in)
	vfAssert(err == nil, "C04 value encodes")
	pair := KeyValuePair{Key: "k", Value: val, Codec: wc.CodecID()}
	ser, err := pair.Marshal()
	vfAssert(err == nil, "C04 pair serialises")
	if vfChoice("delivery", 2) == 0 {
		m.NotifyMsg(ser)
	} else {
		n := len(ser)
		m.MergeRemoteState(append([]byte{byte(n >> 24), byte(n >> 16), byte(n >> 8), byte(n)}, ser...), false)
	}
	vfQuiesce()
	// readers never see tombstones
	out, err := m.Get("k", wc)
	vfAssert(err == nil, "C04 get succeeds")
	view := out.(*vfLWW)
	for _, e := range view.m {
		vfAssert(!e.dead, "C04 tombstones are never visible to readers")
	}
	_, live := view.m["live"]
	vfAssert(live, "C04 hiding tombstones never hides a live entry")
	// ... nor do watchers
	mu.Lock()
	w1, w2 := watched, prefWatched
	mu.Unlock()
	for _, w := range []*vfLWW{w1, w2} {
		if w != nil {
			for _, e := range w.m {
				vfAssert(!e.dead, "C04 tombstones are never visible to watchers")
			}
			_, live := w.m["live"]
			vfAssert(live, "C04 hiding tombstones from watchers never hides a live entry")
		}
	}
	// retention: kept in the store and in the forwarded change iff young enough
	m.storeMu.Lock()
	stored := m.store["k"].value.(*vfLWW)
	_, kept := stored.m["gone"]
	m.storeMu.Unlock()
	young := now-tts <= leftS
	vfObserve("kept", kept)
	vfAssert(kept == young, "C04 a tombstone is retained in the store exactly while it is not older than the retention")
	if young {
		vfAssert(w1 != nil && w2 != nil, "C04 watchers are told about a change that only adds a tombstone's effect")
	}
	fwd := false
	for _, msg := range m.GetBroadcasts(0, 1<<20) {
		var p KeyValuePair
		vfAssert(p.Unmarshal(msg) == nil, "C04 forwarded message parses")
		dv, err := wc.Decode(p.Value)
		vfAssert(err == nil, "C04 forwarded value decodes")
		if _, has := dv.(*vfLWW).m["gone"]; has {
			fwd = true
			vfAssert(dv.(*vfLWW).m["gone"].dead, "C04 a forwarded tombstone is still a tombstone")
		}
	}
	vfAssert(fwd == young, "C04 a retained tombstone is forwarded to peers like any other change")
	cancel()
	close(m.shutdown)
	m.NamedService.StopAsync()
	_ = m.NamedService.AwaitTerminated(context.Background())
	vfQuiesce()
	vfCover("c04-kv-tombstones-done")
}

// ---- C07 (gossip store, one node) ----

func HarnessC07_MemberlistCAS() {
	vfSetNow(vfEpoch + 100)
	m := vfDetachedKV(0, vfLWWCodec{})
	pre := vfChoice("preexisting", 2) == 1
	if pre {
		vfSeed(m, "k", &vfLWW{m: map[string]vfEntry{"p": {ts: 1}}}, "lww")
	}
	// start at an arbitrary version (including the wrap boundary of uint)
	if pre {
		m.storeMu.Lock()
		v := m.store["k"]
		// versions of an existing key start at 1 and grow by one per update; the
		// wrap of the 64-bit counter (2^64 updates of one key) is outside the claim
		sv := vfU64("start_version")
		vfAssume(vfAnd(sv >= 1, sv <= 1<<63))
		v.Version = uint(sv)
		m.store["k"] = v
		m.storeMu.Unlock()
	}
	interfere := vfChoice("interfere", 2) == 1
	mode := vfChoice("f", 3) // 0 add own entry, 1 decline, 2 fail
	retryFlag := vfChoice("retry_flag", 2) == 1
	bDone := false
	sawB := false
	var retained *vfLWW // the object A's function returned (the caller may keep and reuse it)
	fA := func(in interface{}) (interface{}, bool, error) {
		cur := &vfLWW{m: map[string]vfEntry{}}
		if in != nil {
			cur = in.(*vfLWW)
		}
		_, sawB = cur.m["b"]
		// caller B performs a complete successful update between A's read and A's write
		if interfere && !bDone {
			bDone = true
			_, _, _, _, _, err := m.trySingleCas("k", vfLWWCodec{}, func(in interface{}) (interface{}, bool, error) {
				c := &vfLWW{m: map[string]vfEntry{}}
				if in != nil {
					c = in.(*vfLWW)
				}
				c.m["b"] = vfEntry{ts: 50}
				return c, true, nil
			})
			vfAssert(err == nil, "C07 an uncontended update succeeds")
		}
		switch mode {
		case 1:
			return nil, false, nil
		case 2:
			return nil, false, vfErrDecode
		}
		cur.m["a"] = vfEntry{ts: 60}
		retained = cur
		// whether the caller is willing to be retried must not weaken the check
		return cur, retryFlag, nil
	}
	n0, v0 := vfStoreSnapshot(m)
	if interfere {
		// B's write will bump the version once
	}
	change, newver, _, _, _, err := m.trySingleCas("k", vfLWWCodec{}, fA)
	vfObserve("err", err != nil)
	m.storeMu.Lock()
	var final *vfLWW
	if v, ok := m.store["k"]; ok && v.value != nil {
		final = v.value.(*vfLWW)
	}
	m.storeMu.Unlock()
	if interfere {
		_, hasB := final.m["b"]
		vfAssert(hasB, "C07 a successful update is never overwritten unseen")
	}
	switch {
	case mode != 0:
		n1, v1 := vfStoreSnapshot(m)
		bBump := uint(0)
		if interfere {
			bBump = 1
		}
		vfAssert(change == nil && newver == 0, "C07 a function that declines or fails writes nothing")
		if pre || !interfere {
			vfAssert(n1 == n0 && v1 == v0+bBump, "C07 a declined or failed call leaves the stored value unchanged")
		}
		vfCover("c07-ml-nowrite")
	case err == nil:
		_, hasA := final.m["a"]
		vfAssert(hasA, "C07 a call that reports success has written its update")
		if interfere && pre {
			vfAssert(false, "C07 a call whose read was overtaken by another successful update does not report success (existing key)")
		}
		if interfere && !pre {
			// key absent at read time: the store merges both first writes (documented behaviour)
			vfCover("c07-ml-first-write-race")
		}
		_ = sawB
		// the store owns its value: what the caller later does to the object its
		// function returned (e.g. inside a later call that declines) changes nothing
		if retained != nil {
			retained.m["scribble"] = vfEntry{ts: 99}
			m.storeMu.Lock()
			_, leaked := m.store["k"].value.(*vfLWW).m["scribble"]
			m.storeMu.Unlock()
			vfAssert(!leaked, "C07 the stored value is not aliased by the object a successful caller returned")
		}
		vfCover("c07-ml-success")
	default:
		_, hasA := final.m["a"]
		vfAssert(!hasA, "C07 a call that reports failure leaves the stored value unchanged")
		vfAssert(interfere && pre, "C07 a version mismatch is reported only after another successful update")
		vfCover("c07-ml-mismatch")
	}
}
