//go:build verif

package memberlist

import (
	"errors"
	"sort"
	"time"

	"github.com/go-kit/log"

	"github.com/grafana/dskit/kv/codec"
)

// Harnesses on a detached gossip KV (NewKV without starting the service: no
// memberlist instance, no transport): C06 supersession rule and hostile input,
// C04 tombstones invisible to readers / retention, C07 CAS on one node.

func init() {
	vfRegister("HarnessC06_Invalidates", HarnessC06_Invalidates)
	vfRegisterBubble("HarnessC06_HostileNotify", HarnessC06_HostileNotify)
	vfRegisterBubble("HarnessC06_HostileRemoteState", HarnessC06_HostileRemoteState)
	vfRegisterBubble("HarnessC04_KVTombstones", HarnessC04_KVTombstones)
	vfRegisterBubble("HarnessC07_MemberlistCAS", HarnessC07_MemberlistCAS)
}

// vfLWW is a small last-writer-wins map with tombstones, implementing Mergeable.
type vfEntry struct {
	ts   int64
	dead bool
}

type vfLWW struct {
	m map[string]vfEntry
}

func (a *vfLWW) Merge(o Mergeable, localCAS bool) (Mergeable, error) {
	other, ok := o.(*vfLWW)
	if !ok || other == nil {
		return nil, nil
	}
	ch := &vfLWW{m: map[string]vfEntry{}}
	for k, e := range other.m {
		cur, has := a.m[k]
		if !has || e.ts > cur.ts || (e.ts == cur.ts && e.dead && !cur.dead) {
			a.m[k] = e
			ch.m[k] = e
		}
	}
	if localCAS {
		for k, cur := range a.m {
			if _, has := other.m[k]; !has && !cur.dead {
				cur.dead = true
				cur.ts = time.Now().Unix()
				a.m[k] = cur
				ch.m[k] = cur
			}
		}
	}
	if len(ch.m) == 0 {
		return nil, nil
	}
	return ch, nil
}

func (a *vfLWW) MergeContent() []string {
	var out []string
	for k := range a.m {
		out = append(out, k)
	}
	sort.Strings(out)
	return out
}

func (a *vfLWW) RemoveTombstones(limit time.Time) (total, removed int) {
	for k, e := range a.m {
		if e.dead {
			if limit.IsZero() || time.Unix(e.ts, 0).Before(limit) {
				delete(a.m, k)
				removed++
			} else {
				total++
			}
		}
	}
	return
}

func (a *vfLWW) Clone() Mergeable {
	c := &vfLWW{m: map[string]vfEntry{}}
	for k, e := range a.m {
		c.m[k] = e
	}
	return c
}

// vfRejectCodec has a known id but rejects every value (hostile payloads).
type vfRejectCodec struct{ decodes int }

var vfErrDecode = errors.New("cannot decode")

func (c *vfRejectCodec) Decode([]byte) (interface{}, error) { c.decodes++; return nil, vfErrDecode }
func (c *vfRejectCodec) Encode(interface{}) ([]byte, error)  { return []byte("x"), nil }
func (c *vfRejectCodec) CodecID() string                     { return "c" }

// vfLWWCodec never touches the bytes: values travel out of band (single node).
type vfLWWCodec struct{}

func (vfLWWCodec) Decode([]byte) (interface{}, error) { return nil, vfErrDecode }
func (vfLWWCodec) Encode(interface{}) ([]byte, error)  { return []byte("lww"), nil }
func (vfLWWCodec) CodecID() string                     { return "lww" }

func vfDetachedKV(left time.Duration, codecs ...codec.Codec) *KV {
	var cfg KVConfig
	cfg.LeftIngestersTimeout = left
	cfg.Codecs = codecs
	cfg.ProcessedMessagesQueueSize = 4
	m := NewKV(cfg, log.NewNopLogger(), nil, nil)
	m.delegateReady.Store(true)
	return m
}

// ---- C06: a queued update is superseded only by an update that contains it ----

func HarnessC06_Invalidates() {
	names := []string{"a", "b", "c"}
	mk := func(tag string) ringBroadcast {
		var content []string
		for _, n := range names {
			if vfBool("has_" + tag + n) {
				content = append(content, n)
			}
		}
		key := "k1"
		if vfBool("otherkey_" + tag) {
			key = "k2"
		}
		return ringBroadcast{key: key, content: content, version: uint(vfU64("ver_" + tag))}
	}
	nb, ob := mk("new"), mk("old")
	got := nb.Invalidates(ob)
	contains := true
	for _, o := range ob.content {
		found := false
		for _, n := range nb.content {
			if n == o {
				found = true
			}
		}
		contains = contains && found
	}
	want := vfAnd(nb.key == ob.key && contains, nb.version >= ob.version)
	vfObserve("invalidates", got)
	vfAssert(got == want, "C06 a queued update is superseded exactly by an update of the same key that contains it and is not older")
	if got {
		vfCover("c06-invalidates-yes")
	} else {
		vfCover("c06-invalidates-no")
	}
}

func vfStoreSnapshot(m *KV) (n int, ver uint) {
	m.storeMu.Lock()
	defer m.storeMu.Unlock()
	for _, v := range m.store {
		n++
		ver += v.Version
	}
	return
}

// HarnessC06_HostileNotify: an arbitrary byte string delivered as a gossip
// message never changes stored state and never crashes the node.
func HarnessC06_HostileNotify() {
	n := vfChoice("len", vfParam("len", 5)+1)
	msg := vfBytes("msg", n)
	rc := &vfRejectCodec{}
	m := vfDetachedKV(0, rc)
	// one legitimate value is already stored
	_, _, _, _, err := m.mergeValueForKey("k", &vfLWW{m: map[string]vfEntry{"a": {ts: 5}}}, true, 0, "c", false, time.Time{})
	vfAssert(err == nil, "C06 storing a value succeeds")
	n0, v0 := vfStoreSnapshot(m)
	m.NotifyMsg(msg)
	vfQuiesce() // let the per-key worker (if any) process the update
	n1, v1 := vfStoreSnapshot(m)
	vfAssert(n0 == n1 && v0 == v1, "C06 malformed, truncated or undecodable messages are dropped without changing stored state")
	vfCover("c06-hostile-notify-done")
}

// HarnessC06_HostileRemoteState: an arbitrary byte string delivered as a
// full-state exchange never changes stored state and never crashes the node.
func HarnessC06_HostileRemoteState() {
	n := vfChoice("len", vfParam("len", 5)+1)
	data := vfBytes("data", n)
	rc := &vfRejectCodec{}
	m := vfDetachedKV(0, rc)
	_, _, _, _, err := m.mergeValueForKey("k", &vfLWW{m: map[string]vfEntry{"a": {ts: 5}}}, true, 0, "c", false, time.Time{})
	vfAssert(err == nil, "C06 storing a value succeeds")
	n0, v0 := vfStoreSnapshot(m)
	m.MergeRemoteState(data, false)
	vfQuiesce()
	n1, v1 := vfStoreSnapshot(m)
	vfAssert(n0 == n1 && v0 == v1, "C06 a malformed full-state exchange is dropped without changing stored state")
	vfCover("c06-hostile-state-done")
}

// ---- C04 (KV layer): tombstones are never visible to readers, are forwarded,
// and are discarded only once older than the retention ----

func HarnessC04_KVTombstones() {
	now := vfI64("now")
	vfAssume(vfAnd(now >= vfEpoch, now <= vfEpoch+(1<<30)))
	vfSetNow(now)
	leftS := vfI64("retention_s")
	vfAssume(vfAnd(leftS >= 1, leftS <= 1<<20))
	m := vfDetachedKV(time.Duration(leftS)*time.Second, vfLWWCodec{})
	// local state: one live entry
	_, _, _, _, err := m.mergeValueForKey("k", &vfLWW{m: map[string]vfEntry{"live": {ts: now - 10}}}, true, 0, "lww", false, time.Time{})
	vfAssert(err == nil, "C04 storing a value succeeds")
	// an incoming update carrying a tombstone with an arbitrary age
	tts := vfI64("tomb_ts")
	vfAssume(vfAnd(tts >= now-(1<<21), tts <= now))
	in := &vfLWW{m: map[string]vfEntry{"gone": {ts: tts, dead: true}}}
	change, _, _, _, err := m.mergeValueForKey("k", in, true, 0, "lww", false, time.Time{})
	vfAssert(err == nil, "C04 merge succeeds")
	// readers never see tombstones
	out, _, err := m.get("k", nil)
	vfAssert(err == nil, "C04 get succeeds")
	view := out.(*vfLWW)
	for _, e := range view.m {
		vfAssert(!e.dead, "C04 tombstones are never visible to readers")
	}
	_, live := view.m["live"]
	vfAssert(live, "C04 hiding tombstones never hides a live entry")
	// retention: kept in the store and in the forwarded change iff young enough
	m.storeMu.Lock()
	stored := m.store["k"].value.(*vfLWW)
	_, kept := stored.m["gone"]
	m.storeMu.Unlock()
	young := now-tts <= leftS
	vfObserve("kept", kept)
	vfAssert(kept == young, "C04 a tombstone is retained in the store exactly while it is not older than the retention")
	fwd := false
	if change != nil {
		_, fwd = change.(*vfLWW).m["gone"]
	}
	vfAssert(fwd == young, "C04 a retained tombstone is forwarded to peers like any other change")
	vfCover("c04-kv-tombstones-done")
}

// ---- C07 (gossip store, one node) ----

func HarnessC07_MemberlistCAS() {
	vfSetNow(vfEpoch + 100)
	m := vfDetachedKV(0, vfLWWCodec{})
	pre := vfChoice("preexisting", 2) == 1
	if pre {
		_, _, _, _, err := m.mergeValueForKey("k", &vfLWW{m: map[string]vfEntry{"p": {ts: 1}}}, true, 0, "lww", false, time.Time{})
		vfAssert(err == nil, "C07 storing a value succeeds")
	}
	// start at an arbitrary version (including the wrap boundary of uint)
	if pre {
		m.storeMu.Lock()
		v := m.store["k"]
		// versions of an existing key start at 1 and grow by one per update; the
		// wrap of the 64-bit counter (2^64 updates of one key) is outside the claim
		sv := vfU64("start_version")
		vfAssume(vfAnd(sv >= 1, sv <= 1<<63))
		v.Version = uint(sv)
		m.store["k"] = v
		m.storeMu.Unlock()
	}
	interfere := vfChoice("interfere", 2) == 1
	mode := vfChoice("f", 3) // 0 add own entry, 1 decline, 2 fail
	retryFlag := vfChoice("retry_flag", 2) == 1
	bDone := false
	sawB := false
	fA := func(in interface{}) (interface{}, bool, error) {
		cur := &vfLWW{m: map[string]vfEntry{}}
		if in != nil {
			cur = in.(*vfLWW)
		}
		_, sawB = cur.m["b"]
		// caller B performs a complete successful update between A's read and A's write
		if interfere && !bDone {
			bDone = true
			_, _, _, _, _, err := m.trySingleCas("k", vfLWWCodec{}, func(in interface{}) (interface{}, bool, error) {
				c := &vfLWW{m: map[string]vfEntry{}}
				if in != nil {
					c = in.(*vfLWW)
				}
				c.m["b"] = vfEntry{ts: 50}
				return c, true, nil
			})
			vfAssert(err == nil, "C07 an uncontended update succeeds")
		}
		switch mode {
		case 1:
			return nil, false, nil
		case 2:
			return nil, false, vfErrDecode
		}
		cur.m["a"] = vfEntry{ts: 60}
		// whether the caller is willing to be retried must not weaken the check
		return cur, retryFlag, nil
	}
	n0, v0 := vfStoreSnapshot(m)
	if interfere {
		// B's write will bump the version once
	}
	change, newver, _, _, _, err := m.trySingleCas("k", vfLWWCodec{}, fA)
	vfObserve("err", err != nil)
	m.storeMu.Lock()
	var final *vfLWW
	if v, ok := m.store["k"]; ok && v.value != nil {
		final = v.value.(*vfLWW)
	}
	m.storeMu.Unlock()
	if interfere {
		_, hasB := final.m["b"]
		vfAssert(hasB, "C07 a successful update is never overwritten unseen")
	}
	switch {
	case mode != 0:
		n1, v1 := vfStoreSnapshot(m)
		bBump := uint(0)
		if interfere {
			bBump = 1
		}
		vfAssert(change == nil && newver == 0, "C07 a function that declines or fails writes nothing")
		if pre || !interfere {
			vfAssert(n1 == n0 && v1 == v0+bBump, "C07 a declined or failed call leaves the stored value unchanged")
		}
		vfCover("c07-ml-nowrite")
	case err == nil:
		_, hasA := final.m["a"]
		vfAssert(hasA, "C07 a call that reports success has written its update")
		if interfere && pre {
			vfAssert(false, "C07 a call whose read was overtaken by another successful update does not report success (existing key)")
		}
		if interfere && !pre {
			// key absent at read time: the store merges both first writes (documented behaviour)
			vfCover("c07-ml-first-write-race")
		}
		_ = sawB
		vfCover("c07-ml-success")
	default:
		_, hasA := final.m["a"]
		vfAssert(!hasA, "C07 a call that reports failure leaves the stored value unchanged")
		vfAssert(interfere && pre, "C07 a version mismatch is reported only after another successful update")
		vfCover("c07-ml-mismatch")
	}
}
