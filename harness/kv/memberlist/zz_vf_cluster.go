//go:build verif

package memberlist

import (
	"context"
	"fmt"
	"sync"
	"time"

	"github.com/hashicorp/memberlist"

	"github.com/grafana/dskit/services"
)

// C06 - a cluster of gossip KV nodes detached from the transport: the harness
// is the network. An adversarial phase (compare-and-swap on any node, arbitrary
// delivery / duplication / reordering / loss of captured gossip messages,
// one-way full-state exchanges) is followed by a healing phase (full-state
// exchange between every ordered pair); then all nodes must expose the same,
// merged value, every acknowledged update must be contained in it, watchers
// must have been called with it, and late stale messages change nothing.

func init() { vfRegisterBubble("HarnessC06_Cluster", HarnessC06_Cluster) }

// vfWireCodec moves values out of band: the bytes are a handle into a table
// shared by the whole cluster (symbolic timestamps never become bytes).
type vfWireCodec struct {
	mu    sync.Mutex
	table []*vfLWW
}

func (c *vfWireCodec) CodecID() string { return "wire" }
func (c *vfWireCodec) Encode(v interface{}) ([]byte, error) {
	l, ok := v.(*vfLWW)
	if !ok || l == nil {
		return nil, vfErrDecode
	}
	c.mu.Lock()
	defer c.mu.Unlock()
	c.table = append(c.table, l.Clone().(*vfLWW))
	n := len(c.table) - 1
	return []byte{'h', byte(n >> 8), byte(n)}, nil
}
func (c *vfWireCodec) Decode(b []byte) (interface{}, error) {
	if len(b) != 3 || b[0] != 'h' {
		return nil, vfErrDecode
	}
	n := int(b[1])<<8 | int(b[2])
	c.mu.Lock()
	defer c.mu.Unlock()
	if n >= len(c.table) {
		return nil, vfErrDecode
	}
	return c.table[n].Clone(), nil
}

type vfNode struct {
	kv        *KV
	mu        sync.Mutex
	seen      *vfLWW // last value handed to the key watcher
	calls     int
	prefSeen  *vfLWW // last value handed to the prefix watcher
	prefCalls int
}

func vfClusterNode(n int, wc *vfWireCodec) *vfNode { return vfClusterNodeCfg(n, wc, 0) }

func vfClusterNodeCfg(n int, wc *vfWireCodec, left time.Duration) *vfNode {
	var cfg KVConfig
	cfg.LeftIngestersTimeout = left
	cfg.Codecs = append(cfg.Codecs, wc)
	cfg.ProcessedMessagesQueueSize = 8
	cfg.WatchPrefixBufferSize = 8
	m := NewKV(cfg, nopLogger{}, nil, nil)
	// what starting() does after creating the memberlist instance
	m.localBroadcasts = &memberlist.TransmitLimitedQueue{NumNodes: func() int { return n }, RetransmitMult: 1}
	m.gossipBroadcasts = &memberlist.TransmitLimitedQueue{NumNodes: func() int { return n }, RetransmitMult: 1}
	m.delegateReady.Store(true)
	// locally generated updates are broadcast only while the service is running
	svc := services.NewIdleService(nil, nil).WithName("detached")
	vfAssert(svc.StartAsync(context.Background()) == nil, "C06 service starts")
	vfAssert(svc.AwaitRunning(context.Background()) == nil, "C06 service runs")
	m.NamedService = svc
	return &vfNode{kv: m}
}

type nopLogger struct{}

func (nopLogger) Log(...interface{}) error { return nil }

func vfRaw(m *KV, key string) *vfLWW {
	m.storeMu.Lock()
	defer m.storeMu.Unlock()
	v, ok := m.store[key]
	if !ok || v.value == nil {
		return nil
	}
	return v.value.(*vfLWW).Clone().(*vfLWW)
}

func vfStoreVersion(m *KV, key string) uint {
	m.storeMu.Lock()
	defer m.storeMu.Unlock()
	return m.store[key].Version
}

func vfSameLWW(a, b *vfLWW) bool {
	if a == nil || b == nil {
		return a == nil && b == nil
	}
	if len(a.m) != len(b.m) {
		return false
	}
	res := true
	for k, ea := range a.m {
		eb, ok := b.m[k]
		if !ok {
			return false
		}
		res = vfAnd(res, vfAnd(ea.ts == eb.ts, ea.dead == eb.dead))
	}
	return res
}

type vfAck struct {
	name string
	ts   int64
}

func HarnessC06_Cluster() {
	vfSetNow(vfEpoch + 100)
	n := vfParam("nodes", 2)
	steps := vfParam("steps", 3)
	lazy := vfParam("lazy", 0) == 1
	wc := &vfWireCodec{}
	nodes := make([]*vfNode, n)
	ctx, cancel := context.WithCancel(context.Background())
	for i := range nodes {
		nodes[i] = vfClusterNode(n, wc)
		nd := nodes[i]
		go nd.kv.WatchKey(ctx, "k", wc, func(v interface{}) bool {
			nd.mu.Lock()
			nd.calls++
			nd.seen, _ = v.(*vfLWW)
			nd.mu.Unlock()
			return true
		})
		go nd.kv.WatchPrefix(ctx, "", wc, func(k string, v interface{}) bool {
			nd.mu.Lock()
			nd.prefCalls++
			nd.prefSeen, _ = v.(*vfLWW)
			nd.mu.Unlock()
			return true
		})
	}
	vfQuiesce()
	names := []string{"a", "b"}
	var pool [][]byte
	var acks []vfAck
	collect := func(i int) {
		pool = append(pool, nodes[i].kv.GetBroadcasts(0, 1<<20)...)
	}
	collectAll := func() {
		for i := range nodes {
			collect(i)
		}
	}
	pushPull := func(from, to int) {
		nodes[to].kv.MergeRemoteState(nodes[from].kv.LocalState(false), false)
	}
	for s := 0; s < steps; s++ {
		acts := 2
		if len(pool) > 0 {
			acts++
		}
		if lazy {
			acts++
		}
		switch vfChoice("action", acts) {
		case 0: // compare-and-swap on any node
			i := vfChoice("cas_node", n)
			op := vfChoice("cas_op", 3)
			ts := vfI64("ts")
			vfAssume(vfAnd(ts >= 1, ts <= 1000))
			err := nodes[i].kv.CAS(context.Background(), "k", wc, func(in interface{}) (interface{}, bool, error) {
				cur := &vfLWW{m: map[string]vfEntry{}}
				if in != nil {
					cur = in.(*vfLWW)
				}
				switch op {
				case 0, 1:
					cur.m[names[op]] = vfEntry{ts: ts}
				case 2:
					delete(cur.m, names[0])
				}
				return cur, false, nil
			})
			if err == nil && op < 2 {
				acks = append(acks, vfAck{names[op], ts})
				vfCover("c06-cluster-acked")
			}
		case 1: // one-way full-state exchange
			from := vfChoice("pp_from", n)
			to := (from + 1 + vfChoice("pp_to", n-1)) % n
			pushPull(from, to)
		case 2:
			if len(pool) == 0 { // lazy mode without messages: a gossip round
				collect(vfChoice("gossip_node", n))
				break
			}
			// any captured message to any node (it stays captured: duplication)
			k := vfChoice("msg", len(pool))
			nodes[vfChoice("deliver_to", n)].kv.NotifyMsg(pool[k])
		case 3: // lazy mode: a gossip round on one node
			collect(vfChoice("gossip_node", n))
		}
		vfQuiesce()
		if !lazy {
			collectAll()
		}
	}
	// messages flow again: full-state exchange between every ordered pair
	for from := 0; from < n; from++ {
		for to := 0; to < n; to++ {
			if from != to {
				pushPull(from, to)
			}
		}
	}
	vfQuiesce()
	final := vfRaw(nodes[0].kv, "k")
	for i := 1; i < n; i++ {
		vfAssert(vfSameLWW(final, vfRaw(nodes[i].kv, "k")), "C06 after messages flow again all nodes hold the same merged value")
	}
	for _, a := range acks {
		vfAssert(final != nil, "C06 an acknowledged update is not lost")
		if final != nil {
			e, ok := final.m[a.name]
			vfAssert(ok, "C06 every acknowledged update is contained in the converged value")
			vfAssert(e.ts >= a.ts, "C06 every acknowledged update is contained in the converged value")
		}
	}
	// readers and watchers
	var view0 *vfLWW
	for i, nd := range nodes {
		out, err := nd.kv.Get("k", wc)
		vfAssert(err == nil, "C06 get succeeds")
		view, _ := out.(*vfLWW)
		if i == 0 {
			view0 = view
		}
		vfAssert(vfSameLWW(view0, view), "C06 all nodes expose the same value")
		if view != nil {
			for _, e := range view.m {
				vfAssert(!e.dead, "C06 readers never see tombstones")
			}
		}
		nd.mu.Lock()
		seen, calls, pseen, pcalls := nd.seen, nd.calls, nd.prefSeen, nd.prefCalls
		nd.mu.Unlock()
		if view != nil {
			vfAssert(calls > 0 && vfSameLWW(seen, view), "C06 every key watcher has been called with the converged value")
			vfAssert(pcalls > 0 && vfSameLWW(pseen, view), "C06 every prefix watcher has been called with the converged value")
		} else {
			vfAssert(calls == 0 && pcalls == 0, "C06 watchers are not called without a change")
		}
	}
	// quiescence: a second exchange round and any late, stale message change nothing
	vers := make([]uint, n)
	for i, nd := range nodes {
		vers[i] = vfStoreVersion(nd.kv, "k")
	}
	collectAll()
	for _, msg := range pool { // every captured message arrives (again) everywhere
		for _, nd := range nodes {
			nd.kv.NotifyMsg(msg)
			vfQuiesce()
		}
	}
	for from := 0; from < n; from++ {
		for to := 0; to < n; to++ {
			if from != to {
				pushPull(from, to)
			}
		}
	}
	vfQuiesce()
	for i, nd := range nodes {
		vfAssert(vfStoreVersion(nd.kv, "k") == vers[i], "C06 once converged, further exchanges and late messages change nothing")
		vfAssert(vfSameLWW(final, vfRaw(nd.kv, "k")), "C06 once converged, further exchanges and late messages change nothing")
	}
	cancel()
	for _, nd := range nodes {
		close(nd.kv.shutdown)
		nd.kv.NamedService.StopAsync()
		_ = nd.kv.NamedService.AwaitTerminated(context.Background())
	}
	vfQuiesce()
	_ = fmt.Sprint
	vfCover("c06-cluster-done")
}

// HarnessC06_Queue: updates queued for gossip on one node are superseded only
// by updates that contain them: after any sequence of acknowledged updates over
// two keys, one gossip round hands out, for every acknowledged put, a message
// of the same key that contains it.
func init() { vfRegisterBubble("HarnessC06_Queue", HarnessC06_Queue) }

func HarnessC06_Queue() {
	vfSetNow(vfEpoch + 100)
	wc := &vfWireCodec{}
	nd := vfClusterNode(2, wc)
	keys := []string{"k1", "k2"}
	names := []string{"a", "b"}
	type ack struct {
		key, name string
		ts        int64
	}
	var acks []ack
	for s := 0; s < vfParam("updates", 2); s++ {
		key := keys[vfChoice("key", 2)]
		name := names[vfChoice("name", 2)]
		ts := vfI64("ts")
		vfAssume(vfAnd(ts >= 1, ts <= 1000))
		err := nd.kv.CAS(context.Background(), key, wc, func(in interface{}) (interface{}, bool, error) {
			cur := &vfLWW{m: map[string]vfEntry{}}
			if in != nil {
				cur = in.(*vfLWW)
			}
			cur.m[name] = vfEntry{ts: ts}
			return cur, false, nil
		})
		if err == nil {
			acks = append(acks, ack{key, name, ts})
		}
	}
	msgs := nd.kv.GetBroadcasts(0, 1<<20)
	type sent struct {
		key string
		val *vfLWW
	}
	var out []sent
	for _, m := range msgs {
		var p KeyValuePair
		vfAssert(p.Unmarshal(m) == nil, "C06 queued messages are well-formed")
		v, err := wc.Decode(p.Value)
		vfAssert(err == nil, "C06 queued messages are decodable")
		out = append(out, sent{p.Key, v.(*vfLWW)})
	}
	for _, a := range acks {
		covered := false
		for _, o := range out {
			if o.key != a.key {
				continue
			}
			if e, ok := o.val.m[a.name]; ok {
				covered = vfOr(covered, e.ts >= a.ts)
			}
		}
		vfAssert(covered, "C06 a queued update is superseded only by an update of the same key that contains it: every acknowledged update is handed to the next gossip round")
	}
	close(nd.kv.shutdown)
	nd.kv.NamedService.StopAsync()
	_ = nd.kv.NamedService.AwaitTerminated(context.Background())
	vfQuiesce()
	vfCover("c06-queue-done")
}

// HarnessC06_Notify: delayed (coalesced) watcher notifications. Two updates of
// one key, the second one racing with the periodic flush of pending
// notifications (one preemption before any mutex acquisition); after one more
// flush every watcher has been called with the latest value.
func init() { vfRegisterBubble("HarnessC06_Notify", HarnessC06_Notify) }

func HarnessC06_Notify() {
	vfSetNow(vfEpoch + 100)
	wc := &vfWireCodec{}
	nd := vfClusterNode(2, wc)
	nd.kv.cfg.NotifyInterval = time.Second // notifications are accumulated and flushed by a ticker
	ctx, cancel := context.WithCancel(context.Background())
	put := func(name string, ts int64) error {
		return nd.kv.CAS(context.Background(), "k", wc, func(in interface{}) (interface{}, bool, error) {
			cur := &vfLWW{m: map[string]vfEntry{}}
			if in != nil {
				cur = in.(*vfLWW)
			}
			cur.m[name] = vfEntry{ts: ts}
			return cur, false, nil
		})
	}
	ts1, ts2 := vfI64("ts1"), vfI64("ts2")
	vfAssume(vfAnd(vfAnd(ts1 >= 1, ts1 <= 1000), vfAnd(ts2 >= 1, ts2 <= 1000)))
	second := []string{"a", "b"}[vfChoice("second_name", 2)]
	reacts := vfChoice("watcher_reacts", 2) == 1
	// a watcher that (optionally) reacts to the first notification with an
	// update of its own, as ring lifecyclers do
	go nd.kv.WatchKey(ctx, "k", wc, func(v interface{}) bool {
		nd.mu.Lock()
		nd.calls++
		first := nd.calls == 1
		nd.seen, _ = v.(*vfLWW)
		nd.mu.Unlock()
		if first && reacts {
			_ = put(second, ts2)
		}
		return true
	})
	vfQuiesce()
	vfAssert(put("a", ts1) == nil, "C06 first update is acknowledged")
	// the ticker fires; if the watcher does not react, a second update arrives
	// from elsewhere at the same time
	go nd.kv.sendKeyNotifications()
	if !reacts {
		go func() { _ = put(second, ts2) }()
	}
	vfQuiesce()
	// the next ticks
	nd.kv.sendKeyNotifications()
	vfQuiesce()
	nd.kv.sendKeyNotifications()
	vfQuiesce()
	out, err := nd.kv.Get("k", wc)
	vfAssert(err == nil, "C06 get succeeds")
	view, _ := out.(*vfLWW)
	nd.mu.Lock()
	seen, calls := nd.seen, nd.calls
	nd.mu.Unlock()
	vfAssert(calls > 0 && vfSameLWW(seen, view), "C06 with delayed notifications every watcher is eventually called with the latest value")
	cancel()
	close(nd.kv.shutdown)
	nd.kv.NamedService.StopAsync()
	_ = nd.kv.NamedService.AwaitTerminated(context.Background())
	vfQuiesce()
	vfCover("c06-notify-done")
}

// HarnessC06_MixedState: a well-formed full-state blob that mixes good pairs
// with one pair the receiver cannot use (unknown codec, or known codec with an
// undecodable value) at any position: the unusable pair is dropped, every other
// pair is merged and announced to watchers.
func init() { vfRegisterBubble("HarnessC06_MixedState", HarnessC06_MixedState) }

func HarnessC06_MixedState() {
	vfSetNow(vfEpoch + 100)
	wc := &vfWireCodec{}
	nd := vfClusterNode(2, wc)
	ctx, cancel := context.WithCancel(context.Background())
	var mu sync.Mutex
	seenKeys := map[string]int{}
	go nd.kv.WatchPrefix(ctx, "", wc, func(k string, v interface{}) bool {
		mu.Lock()
		seenKeys[k]++
		mu.Unlock()
		return true
	})
	vfQuiesce()
	ts1, ts2 := vfI64("ts1"), vfI64("ts2")
	vfAssume(vfAnd(vfAnd(ts1 >= 1, ts1 <= 1000), vfAnd(ts2 >= 1, ts2 <= 1000)))
	enc := func(v *vfLWW) []byte { b, _ := wc.Encode(v); return b }
	good1 := KeyValuePair{Key: "k1", Value: enc(&vfLWW{m: map[string]vfEntry{"a": {ts: ts1}}}), Codec: wc.CodecID()}
	good2 := KeyValuePair{Key: "k2", Value: enc(&vfLWW{m: map[string]vfEntry{"b": {ts: ts2}}}), Codec: wc.CodecID()}
	bad := KeyValuePair{Key: "other", Value: []byte("opaque"), Codec: "codec-of-another-application"}
	switch vfChoice("bad_kind", 3) {
	case 1:
		bad = KeyValuePair{Key: "k3", Value: []byte("not a handle"), Codec: wc.CodecID()} // known codec, undecodable value
	case 2:
		// a well-formed deletion marker of a key this node never had (the sender
		// deleted it and has not yet purged it): nothing to delete here, and the
		// pairs that follow it in the blob are live
		tsd := vfI64("ts_deleted")
		vfAssume(vfAnd(tsd >= 1, tsd <= 1000))
		bad = KeyValuePair{Key: "k3", Value: enc(&vfLWW{m: map[string]vfEntry{"c": {ts: tsd}}}), Codec: wc.CodecID(), Deleted: true, UpdateTimeMillis: (vfEpoch + 50) * 1000}
	}
	pos := vfChoice("bad_position", 3)
	var pairs []KeyValuePair
	for i, g := range []KeyValuePair{good1, good2} {
		if pos == i {
			pairs = append(pairs, bad)
		}
		pairs = append(pairs, g)
	}
	if pos == 2 {
		pairs = append(pairs, bad)
	}
	var blob []byte
	for _, p := range pairs {
		ser, err := p.Marshal()
		vfAssert(err == nil, "C06 pair serialises")
		n := len(ser)
		blob = append(blob, byte(n>>24), byte(n>>16), byte(n>>8), byte(n))
		blob = append(blob, ser...)
	}
	nd.kv.MergeRemoteState(blob, false)
	vfQuiesce()
	a := vfRaw(nd.kv, "k1")
	b := vfRaw(nd.kv, "k2")
	vfAssert(a != nil && b != nil, "C06 an unusable pair in a full-state exchange is dropped without affecting the other pairs")
	if a != nil && b != nil {
		vfAssert(vfAnd(a.m["a"].ts == ts1, b.m["b"].ts == ts2), "C06 the usable pairs of a full-state exchange are merged")
	}
	vfAssert(vfRaw(nd.kv, "other") == nil && vfRaw(nd.kv, "k3") == nil, "C06 an unusable pair changes no stored state")
	nd.kv.storeMu.Lock()
	d1, d2 := nd.kv.store["k1"].Deleted, nd.kv.store["k2"].Deleted
	nd.kv.storeMu.Unlock()
	vfAssert(!d1 && !d2, "C06 live pairs of a full-state exchange are stored as live whatever precedes them in the blob")
	g1, e1 := nd.kv.Get("k1", wc)
	g2, e2 := nd.kv.Get("k2", wc)
	vfAssert(e1 == nil && e2 == nil && g1 != nil && g2 != nil, "C06 the usable pairs of a full-state exchange are readable")
	mu.Lock()
	n1, n2 := seenKeys["k1"], seenKeys["k2"]
	mu.Unlock()
	vfAssert(n1 > 0 && n2 > 0, "C06 watchers are called for every key merged from a full-state exchange")
	cancel()
	close(nd.kv.shutdown)
	nd.kv.NamedService.StopAsync()
	_ = nd.kv.NamedService.AwaitTerminated(context.Background())
	vfQuiesce()
	vfCover("c06-mixedstate-done")
}
