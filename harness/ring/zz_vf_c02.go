//go:build verif

package ring

import (
	"context"
	"errors"
	"fmt"
	"time"

	"github.com/go-kit/log"
)

// C02 - every successful quorum write shares a replica with every successful
// quorum read, for a fixed ring content.

func init() { vfRegisterBubble("HarnessC02_Intersect", HarnessC02_Intersect) }

var vfErrReplica = errors.New("replica failed")
var vfErrAborted = fmt.Errorf("call aborted: %w", context.Canceled)

func HarnessC02_Intersect() {
	maxInst := vfParam("inst", 3)
	maxTok := vfParam("tok", 1)
	n := 1 + vfChoice("n", maxInst)
	zoneAware := vfChoice("za", 2) == 1
	rf := 1 + vfChoice("rf", vfParam("rf", 3))
	now := vfI64("now")
	vfAssume(vfAnd(now >= vfEpoch, now <= vfEpoch+(1<<31)))
	vfSetNow(now)
	toSec := vfI64("timeout_s")
	vfAssume(vfAnd(toSec >= 0, toSec <= 1<<24))
	// ring: every instance carries a zone when zone-awareness is on
	d := NewDesc()
	nextZone := 0
	for i := 0; i < n; i++ {
		id := vfIDs[i]
		zone := ""
		if zoneAware {
			z := vfChoice("zone", nextZone+1)
			zone = vfZones[z]
			if z == nextZone {
				nextZone++
			}
		}
		nt := 1 + vfChoice("ntok", maxTok)
		st := InstanceState(vfI32("state_" + id))
		vfAssume(vfAnd(st >= ACTIVE, st <= JOINING))
		ts := vfI64("ts_" + id)
		vfAssume(vfAnd(ts >= vfEpoch-(1<<30), ts <= vfEpoch+(1<<31)))
		d.Ingesters[id] = InstanceDesc{Id: id, Addr: id, Zone: zone, State: st, Timestamp: ts,
			RegisteredTimestamp: vfEpoch - 1000, Tokens: vfSymTokens("tok_"+id, nt)}
	}
	vfAssumeDistinctTokens(d)
	r := vfMkRing(d, rf, zoneAware, time.Duration(toSec)*time.Second)
	key := vfU32("key")
	ws, werr := r.Get(key, Write, nil, nil, nil)
	rs, rerr := r.GetReplicationSetForOperation(Read)
	if werr != nil || rerr != nil {
		vfCover("c02-lookup-fails")
		return
	}
	// a successful quorum write: acknowledged by at least len - MaxErrors of its replicas
	acked := map[string]bool{}
	nAck := 0
	for i := range ws.Instances {
		a := vfBool("ack_" + ws.Instances[i].Id)
		acked[ws.Instances[i].Id] = a
		nAck += vfIteInt(a, 1, 0)
	}
	vfAssume(nAck >= len(ws.Instances)-ws.MaxErrors)
	// a successful quorum read: the real tracker, fed with the outcome of every call
	var tr replicationSetResultTracker
	if rs.MaxUnavailableZones > 0 || rs.ZoneAwarenessEnabled { // as DoUntilQuorum chooses
		tr = newZoneAwareResultTracker(rs.Instances, rs.MaxUnavailableZones, nil, log.NewNopLogger())
	} else {
		tr = newDefaultResultTracker(rs.Instances, rs.MaxErrors, log.NewNopLogger())
	}
	status := make([]int, len(rs.Instances)) // 0 pending, 1 answered, 2 failed
	errKind := -1
	for i := range rs.Instances {
		status[i] = vfChoice("read_"+rs.Instances[i].Id, 3)
		switch status[i] {
		case 1:
			tr.done(&rs.Instances[i], nil)
		case 2:
			// what kind of error a failed call ends with must not matter: an
			// ordinary one, or one that wraps context.Canceled (an aborted call)
			if errKind < 0 {
				errKind = vfChoice("errkind", 2)
			}
			if errKind == 1 {
				tr.done(&rs.Instances[i], vfErrAborted)
			} else {
				tr.done(&rs.Instances[i], vfErrReplica)
			}
		}
	}
	if tr.failed() || !tr.succeeded() {
		vfCover("c02-read-not-successful")
		return
	}
	common := false
	for i := range rs.Instances {
		if status[i] == 1 && tr.shouldIncludeResultFrom(&rs.Instances[i]) {
			if a, ok := acked[rs.Instances[i].Id]; ok {
				common = vfOr(common, a)
			}
		}
	}
	vfAssert(common, "C02 every successful quorum write shares a replica with every successful quorum read")
	vfCover("c02-intersect")
}

func init() { vfRegisterBubble("HarnessC02_Zones", HarnessC02_Zones) }

// HarnessC02_Zones: one instance per zone, 1..5 zones (fewer, equal and more
// than the replication factor), any subset of instances unhealthy. The read
// side is taken at the level of the replication set's own tolerance: a
// successful zone-aware read has answers from every instance of all but
// MaxUnavailableZones zones (what HarnessC02_Intersect establishes for the real
// tracker on smaller rings); both answer and acknowledgement vectors are
// symbolic.
func HarnessC02_Zones() {
	nz := 1 + vfChoice("zones", vfParam("zones", 5))
	rf := 1 + vfChoice("rf", vfParam("rf", 5))
	zoneAware := vfChoice("za", 2) == 1
	now := vfEpoch + 1000
	vfSetNow(now)
	d := NewDesc()
	for i := 0; i < nz; i++ {
		id := vfIDs[i]
		ts := vfI64("ts_" + id)
		vfAssume(vfAnd(ts >= now-1000, ts <= now))
		zone := ""
		if zoneAware {
			zone = string(rune('a' + i))
		}
		d.Ingesters[id] = InstanceDesc{Id: id, Addr: id, Zone: zone, State: ACTIVE, Timestamp: ts,
			RegisteredTimestamp: 7, Tokens: []uint32{uint32(1000 * (i + 1))}}
	}
	// optionally one more registered instance that owns no tokens (yet), in any
	// state, in one of the zones or in a zone of its own
	if vfParam("tokenless", 1) == 1 && vfChoice("tokenless", 2) == 1 {
		st := InstanceState(vfI32("state_x"))
		vfAssume(vfAnd(st >= ACTIVE, st <= JOINING))
		ts := vfI64("ts_x")
		vfAssume(vfAnd(ts >= now-1000, ts <= now))
		zone := ""
		if zoneAware {
			zone = string(rune('a' + vfChoice("zone_x", nz+1)))
		}
		d.Ingesters["x"] = InstanceDesc{Id: "x", Addr: "x", Zone: zone, State: st, Timestamp: ts, RegisteredTimestamp: 7}
	}
	r := vfMkRing(d, rf, zoneAware, time.Minute)
	key := vfU32("key")
	ws, werr := r.Get(key, Write, nil, nil, nil)
	rs, rerr := r.GetReplicationSetForOperation(Read)
	if werr != nil || rerr != nil {
		vfCover("c02-zones-lookup-fails")
		return
	}
	acked := map[string]bool{}
	nAck := 0
	for i := range ws.Instances {
		a := vfBool("ack_" + ws.Instances[i].Id)
		acked[ws.Instances[i].Id] = a
		nAck += vfIteInt(a, 1, 0)
	}
	vfAssume(nAck >= len(ws.Instances)-ws.MaxErrors)
	nAns := 0
	common := false
	for i := range rs.Instances {
		ans := vfBool("answer_" + rs.Instances[i].Id)
		nAns += vfIteInt(ans, 1, 0)
		if a, ok := acked[rs.Instances[i].Id]; ok {
			common = vfOr(common, vfAnd(a, ans))
		}
	}
	if rs.ZoneAwarenessEnabled {
		// one instance per zone: zones that answered completely = instances that answered
		vfAssume(nAns >= len(rs.Instances)-rs.MaxUnavailableZones)
	} else {
		vfAssume(nAns >= len(rs.Instances)-rs.MaxErrors)
	}
	vfAssert(common, "C02 every successful quorum write shares a replica with every successful quorum read (zones fewer, equal or more than the replication factor)")
	vfCover("c02-zones-intersect")
}
