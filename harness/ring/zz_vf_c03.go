//go:build verif

package ring

import "time"

// C03 - ring state merge is a CRDT.
//
// Operand descriptors are arbitrary (symbolic timestamps, states, tokens) under
// exactly the statement's provisos: one (entry, timestamp) pair denotes one
// content (a removal may share the timestamp of a live version), and no two
// instances claim the same token.

func init() {
	vfRegister("HarnessC03_RingPair", HarnessC03_RingPair)
	vfRegister("HarnessC03_RingTriple", HarnessC03_RingTriple)
	vfRegister("HarnessC03_PartPair", HarnessC03_PartPair)
	vfRegister("HarnessC03_PartTriple", HarnessC03_PartTriple)
}

type vfEntryGen struct {
	ts  int64
	st  InstanceState
	tok uint32 // raw token (the entry carries it unless it is a tombstone)
}

type vfOperand struct {
	d   *Desc
	gen map[string]vfEntryGen
}

// vfArbOperand builds a descriptor over ids[0:n]; each id present or not.
func vfArbOperand(tag string, n int) vfOperand {
	op := vfOperand{d: NewDesc(), gen: map[string]vfEntryGen{}}
	for i := 0; i < n; i++ {
		id := vfIDs[i]
		if vfChoice("has_"+tag+id, 2) == 0 {
			continue
		}
		ts := vfI64("ts_" + tag + id)
		vfAssume(vfAnd(ts >= 1, ts <= 1<<40))
		st := InstanceState(vfI32("st_" + tag + id))
		vfAssume(vfAnd(st >= ACTIVE, st <= LEFT))
		tok := vfU32("tok_" + tag + id)
		var toks []uint32
		if st != LEFT {
			toks = []uint32{tok}
		}
		op.gen[id] = vfEntryGen{ts, st, tok}
		op.d.Ingesters[id] = InstanceDesc{Id: id, Addr: "addr-" + id, Zone: "z", State: st, Timestamp: ts, Tokens: toks, RegisteredTimestamp: 7}
	}
	return op
}

// vfAssumeConsistent states the provisos over a set of operands.
func vfAssumeConsistent(n int, ops ...vfOperand) {
	for i := 0; i < n; i++ {
		id := vfIDs[i]
		for a := 0; a < len(ops); a++ {
			ga, oka := ops[a].gen[id]
			if !oka {
				continue
			}
			for b := a + 1; b < len(ops); b++ {
				gb, okb := ops[b].gen[id]
				if !okb {
					continue
				}
				// same timestamp, both live => same content
				vfAssume(vfImplies(vfAnd(ga.ts == gb.ts, vfAnd(ga.st != LEFT, gb.st != LEFT)), vfAnd(ga.st == gb.st, ga.tok == gb.tok)))
			}
		}
	}
	// no two instances claim the same token
	for i := 0; i < n; i++ {
		for j := i + 1; j < n; j++ {
			for a := 0; a < len(ops); a++ {
				ga, oka := ops[a].gen[vfIDs[i]]
				if !oka {
					continue
				}
				for b := 0; b < len(ops); b++ {
					gb, okb := ops[b].gen[vfIDs[j]]
					if !okb {
						continue
					}
					vfAssume(ga.tok != gb.tok)
				}
			}
		}
	}
}

func vfCloneDesc(d *Desc) *Desc {
	c := NewDesc()
	for id, ing := range d.Ingesters {
		ing.Tokens = append([]uint32(nil), ing.Tokens...)
		c.Ingesters[id] = ing
	}
	return c
}

// vfMergeInto merges src into dst with the real merge (gossip mode) and returns the change.
func vfMergeInto(dst, src *Desc) *Desc {
	ch, err := dst.mergeWithTime(vfCloneDesc(src), false, time.Unix(vfEpoch, 0))
	vfAssert(err == nil, "C03 merge of a ring descriptor does not fail")
	if ch == nil {
		return nil
	}
	return ch.(*Desc)
}

func vfSameTokens(a, b []uint32) bool {
	if len(a) != len(b) {
		return false
	}
	res := true
	for i := range a {
		res = vfAnd(res, a[i] == b[i])
	}
	return res
}

func vfSameInstance(a, b InstanceDesc) bool {
	return vfAnd(vfAnd(a.Timestamp == b.Timestamp, a.State == b.State),
		vfAnd(vfSameTokens(a.Tokens, b.Tokens), vfAnd(a.Addr == b.Addr, vfAnd(a.Zone == b.Zone, a.RegisteredTimestamp == b.RegisteredTimestamp))))
}

// vfSameDesc compares logical content (tokens as lists; nil == empty).
func vfSameDesc(a, b *Desc) bool {
	if len(a.Ingesters) != len(b.Ingesters) {
		return false
	}
	res := true
	for id, ia := range a.Ingesters {
		ib, ok := b.Ingesters[id]
		if !ok {
			return false
		}
		res = vfAnd(res, vfSameInstance(ia, ib))
	}
	return res
}

func HarnessC03_RingPair() {
	n := vfParam("ids", 2)
	A, B := vfArbOperand("a", n), vfArbOperand("b", n)
	vfAssumeConsistent(n, A, B)

	// A ⊔ B
	x := vfCloneDesc(A.d)
	ch := vfMergeInto(x, B.d)
	// idempotence
	x2 := vfCloneDesc(x)
	ch2 := vfMergeInto(x2, B.d)
	vfAssert(ch2 == nil, "C03 merging the same descriptor again reports no change")
	vfAssert(vfSameDesc(x, x2), "C03 merge is idempotent on the state")
	// a merge that reports no change leaves the content untouched
	if ch == nil {
		vfAssert(vfSameDesc(x, A.d), "C03 a merge reporting no change leaves the content untouched")
		vfCover("c03-pair-nochange")
	} else {
		// delta sufficiency: pre ⊔ change == pre ⊔ B
		y := vfCloneDesc(A.d)
		vfMergeInto(y, ch)
		vfAssert(vfSameDesc(x, y), "C03 merging the reported change into the pre-merge state equals merging the full descriptor")
		vfCover("c03-pair-change")
	}
	// commutativity
	z := vfCloneDesc(B.d)
	vfMergeInto(z, A.d)
	vfAssert(vfSameDesc(x, z), "C03 merge is commutative")
	// pointwise: newer timestamp wins, at equal timestamps a removal wins
	for i := 0; i < n; i++ {
		id := vfIDs[i]
		ea, ina := A.d.Ingesters[id]
		eb, inb := B.d.Ingesters[id]
		got, ok := x.Ingesters[id]
		vfAssert(ok == (ina || inb), "C03 merged state holds exactly the ids of both operands")
		switch {
		case ina && !inb:
			vfAssert(vfSameInstance(got, ea), "C03 entry only in one operand is kept")
		case inb && !ina:
			// an incoming tombstone is stored like any entry
			vfAssert(vfSameInstance(got, eb), "C03 entry only in the other operand is taken")
		case ina && inb:
			bWins := vfOr(eb.Timestamp > ea.Timestamp, vfAnd(eb.Timestamp == ea.Timestamp, vfAnd(eb.State == LEFT, ea.State != LEFT)))
			if bWins {
				vfAssert(vfSameInstance(got, eb), "C03 newer timestamp wins; at equal timestamps a removal wins")
			} else {
				vfAssert(vfSameInstance(got, ea), "C03 older or equal entry does not replace the current one")
			}
		}
	}
}

func HarnessC03_RingTriple() {
	n := vfParam("ids", 2)
	A, B, C := vfArbOperand("a", n), vfArbOperand("b", n), vfArbOperand("c", n)
	vfAssumeConsistent(n, A, B, C)
	// (A ⊔ B) ⊔ C
	l := vfCloneDesc(A.d)
	chAB := vfMergeInto(l, B.d)
	vfMergeInto(l, C.d)
	// A ⊔ (B ⊔ C)
	bc := vfCloneDesc(B.d)
	vfMergeInto(bc, C.d)
	r := vfCloneDesc(A.d)
	vfMergeInto(r, bc)
	vfAssert(vfSameDesc(l, r), "C03 merge is associative")
	// delta sufficiency into a replica that already contains the pre-state:
	// R = A ⊔ C;  R ⊔ change(A,B) == R ⊔ B
	r1 := vfCloneDesc(A.d)
	vfMergeInto(r1, C.d)
	r2 := vfCloneDesc(r1)
	if chAB != nil {
		vfMergeInto(r1, chAB)
	}
	vfMergeInto(r2, B.d)
	vfAssert(vfSameDesc(r1, r2), "C03 the reported change is sufficient for any replica that already contains the pre-merge state")
	vfCover("c03-triple-done")
}

// ---- partition ring ----

type vfPartGen struct {
	ts, lts int64
	st      PartitionState
	locked  bool
}

type vfOwnerGen struct {
	ts   int64
	st   OwnerState
	part int32
}

type vfPOperand struct {
	d  *PartitionRingDesc
	pg map[int32]vfPartGen
	og map[string]vfOwnerGen
}

func vfArbPOperand(tag string, np, no int) vfPOperand {
	op := vfPOperand{d: NewPartitionRingDesc(), pg: map[int32]vfPartGen{}, og: map[string]vfOwnerGen{}}
	for p := int32(0); int(p) < np; p++ {
		if vfChoice("hasp_"+tag, 2) == 0 {
			continue
		}
		ts := vfI64("pts_" + tag)
		vfAssume(vfAnd(ts >= 1, ts <= 1<<40))
		lts := vfI64("plts_" + tag)
		vfAssume(vfAnd(lts >= 0, lts <= 1<<40))
		st := PartitionState(vfI32("pst_" + tag))
		vfAssume(vfAnd(st >= PartitionPending, st <= PartitionDeleted))
		locked := vfBool("plock_" + tag)
		op.pg[p] = vfPartGen{ts, lts, st, locked}
		op.d.Partitions[p] = PartitionDesc{Id: p, Tokens: []uint32{uint32(10 + p), uint32(100 + p)}, State: st, StateTimestamp: ts,
			StateChangeLocked: locked, StateChangeLockedTimestamp: lts}
	}
	for o := 0; o < no; o++ {
		id := vfOwnerIDs[o]
		if vfChoice("haso_"+tag, 2) == 0 {
			continue
		}
		ts := vfI64("ots_" + tag)
		vfAssume(vfAnd(ts >= 1, ts <= 1<<40))
		st := OwnerState(vfI32("ost_" + tag))
		vfAssume(vfAnd(st >= OwnerActive, st <= OwnerDeleted))
		part := vfI32("opart_" + tag)
		vfAssume(vfAnd(part >= 0, part < int32(np)))
		op.og[id] = vfOwnerGen{ts, st, part}
		op.d.Owners[id] = OwnerDesc{OwnedPartition: part, State: st, UpdatedTimestamp: ts}
	}
	return op
}

func vfAssumePConsistent(np, no int, ops ...vfPOperand) {
	for a := 0; a < len(ops); a++ {
		for b := a + 1; b < len(ops); b++ {
			for p := int32(0); int(p) < np; p++ {
				ga, oka := ops[a].pg[p]
				gb, okb := ops[b].pg[p]
				if oka && okb {
					vfAssume(vfImplies(vfAnd(ga.ts == gb.ts, vfAnd(ga.st != PartitionDeleted, gb.st != PartitionDeleted)), ga.st == gb.st))
					vfAssume(vfImplies(ga.lts == gb.lts, ga.locked == gb.locked))
				}
			}
			for o := 0; o < no; o++ {
				ga, oka := ops[a].og[vfOwnerIDs[o]]
				gb, okb := ops[b].og[vfOwnerIDs[o]]
				if oka && okb {
					vfAssume(vfImplies(vfAnd(ga.ts == gb.ts, vfAnd(ga.st != OwnerDeleted, gb.st != OwnerDeleted)), vfAnd(ga.st == gb.st, ga.part == gb.part)))
					// two tombstones of one owner at one timestamp are the same tombstone
					vfAssume(vfImplies(vfAnd(ga.ts == gb.ts, vfAnd(ga.st == OwnerDeleted, gb.st == OwnerDeleted)), ga.part == gb.part))
				}
			}
		}
	}
}

func vfPMergeInto(dst, src *PartitionRingDesc) *PartitionRingDesc {
	ch, err := dst.mergeWithTime(vfClonePRD(src), false, time.Unix(vfEpoch, 0))
	vfAssert(err == nil, "C03 merge of a partition ring descriptor does not fail")
	if ch == nil {
		return nil
	}
	return ch.(*PartitionRingDesc)
}

func vfSamePRD(a, b *PartitionRingDesc) bool {
	if len(a.Partitions) != len(b.Partitions) || len(a.Owners) != len(b.Owners) {
		return false
	}
	res := true
	for id, pa := range a.Partitions {
		pb, ok := b.Partitions[id]
		if !ok {
			return false
		}
		res = vfAnd(res, vfSamePartition(pa, pb))
	}
	for id, oa := range a.Owners {
		ob, ok := b.Owners[id]
		if !ok {
			return false
		}
		res = vfAnd(res, vfSameOwner(oa, ob))
	}
	return res
}

func HarnessC03_PartPair() {
	np, no := vfParam("parts", 2), vfParam("owners", 1)
	A, B := vfArbPOperand("a", np, no), vfArbPOperand("b", np, no)
	vfAssumePConsistent(np, no, A, B)
	x := vfClonePRD(A.d)
	ch := vfPMergeInto(x, B.d)
	x2 := vfClonePRD(x)
	ch2 := vfPMergeInto(x2, B.d)
	vfAssert(ch2 == nil, "C03 merging the same partition descriptor again reports no change")
	vfAssert(vfSamePRD(x, x2), "C03 partition merge is idempotent")
	if ch == nil {
		vfAssert(vfSamePRD(x, A.d), "C03 a partition merge reporting no change leaves the content untouched")
		vfCover("c03-ppair-nochange")
	} else {
		y := vfClonePRD(A.d)
		vfPMergeInto(y, ch)
		vfAssert(vfSamePRD(x, y), "C03 partition merge: reported change is sufficient")
		vfCover("c03-ppair-change")
	}
	z := vfClonePRD(B.d)
	vfPMergeInto(z, A.d)
	vfAssert(vfSamePRD(x, z), "C03 partition merge is commutative")
	// pointwise on owners: newer wins, removal wins ties
	for o := 0; o < no; o++ {
		id := vfOwnerIDs[o]
		ea, ina := A.d.Owners[id]
		eb, inb := B.d.Owners[id]
		got, ok := x.Owners[id]
		vfAssert(ok == (ina || inb), "C03 merged owners are exactly the owners of both operands")
		if ina && inb {
			bWins := vfOr(eb.UpdatedTimestamp > ea.UpdatedTimestamp, vfAnd(eb.UpdatedTimestamp == ea.UpdatedTimestamp, vfAnd(eb.State == OwnerDeleted, ea.State != OwnerDeleted)))
			if bWins {
				vfAssert(vfSameOwner(got, eb), "C03 owner: newer timestamp wins, removal wins ties")
			} else {
				vfAssert(vfSameOwner(got, ea), "C03 owner: older or equal entry does not replace the current one")
			}
		}
	}
}

func HarnessC03_PartTriple() {
	np, no := vfParam("parts", 1), vfParam("owners", 1)
	A, B, C := vfArbPOperand("a", np, no), vfArbPOperand("b", np, no), vfArbPOperand("c", np, no)
	vfAssumePConsistent(np, no, A, B, C)
	l := vfClonePRD(A.d)
	chAB := vfPMergeInto(l, B.d)
	vfPMergeInto(l, C.d)
	bc := vfClonePRD(B.d)
	vfPMergeInto(bc, C.d)
	r := vfClonePRD(A.d)
	vfPMergeInto(r, bc)
	vfAssert(vfSamePRD(l, r), "C03 partition merge is associative")
	r1 := vfClonePRD(A.d)
	vfPMergeInto(r1, C.d)
	r2 := vfClonePRD(r1)
	if chAB != nil {
		vfPMergeInto(r1, chAB)
	}
	vfPMergeInto(r2, B.d)
	vfAssert(vfSamePRD(r1, r2), "C03 partition merge: change is sufficient for replicas containing the pre-merge state")
	vfCover("c03-ptriple-done")
}
