//go:build verif

package ring

import (
	"errors"
	"sort"
	"time"
)

// Helpers shared by the ring harnesses.

var vfIDs = []string{"i0", "i1", "i2", "i3", "i4", "i5"}
var vfZones = []string{"a", "b", "c", "d"}

// vfMkRing builds a Ring client directly on a descriptor, without KV client,
// services or metrics, through the real index construction.
func vfMkRing(d *Desc, rf int, zoneAware bool, hbTimeout time.Duration) *Ring {
	r := &Ring{
		cfg:                              Config{ReplicationFactor: rf, ZoneAwarenessEnabled: zoneAware, HeartbeatTimeout: hbTimeout, SubringCacheDisabled: true},
		strategy:                         NewDefaultReplicationStrategy(),
		trackedRingZones:                 map[string]struct{}{},
	}
	r.setRingStateFromDesc(d, false, true, true)
	return r
}

// vfSymTokens returns n symbolic tokens, strictly increasing.
func vfSymTokens(name string, n int) []uint32 {
	toks := make([]uint32, n)
	for i := range toks {
		toks[i] = vfU32(name)
		if i > 0 {
			vfAssume(toks[i-1] < toks[i])
		}
	}
	return toks
}

// vfAssumeDistinctTokens assumes that the tokens of different instances of d
// are pairwise distinct.
func vfAssumeDistinctTokens(d *Desc) {
	ids := vfSortedIDs(d)
	for a := 0; a < len(ids); a++ {
		for b := a + 1; b < len(ids); b++ {
			for _, x := range d.Ingesters[ids[a]].Tokens {
				for _, y := range d.Ingesters[ids[b]].Tokens {
					vfAssume(x != y)
				}
			}
		}
	}
}

func vfSortedIDs(d *Desc) []string {
	ids := make([]string, 0, len(d.Ingesters))
	for id := range d.Ingesters {
		ids = append(ids, id)
	}
	sort.Strings(ids)
	return ids
}

func vfHasID(rs ReplicationSet, id string) bool {
	for i := range rs.Instances {
		if rs.Instances[i].Id == id {
			return true
		}
	}
	return false
}

func vfErrIs(err, target error) bool { return errors.Is(err, target) }

// vfAssumeTimestampsBelow bounds all heartbeat timestamps of d.
func vfAssumeTimestampsBelow(d *Desc, max int64) {
	for _, id := range vfSortedIDs(d) {
		vfAssume(d.Ingesters[id].Timestamp <= max)
	}
}
