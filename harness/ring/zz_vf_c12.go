//go:build verif

package ring

import (
	"time"
)

// C12 - shuffle shards are deterministic, right-sized, stable; look-back is a
// superset.

func init() {
	vfRegisterBubble("HarnessC12_Basic", HarnessC12_Basic)
	vfRegisterBubble("HarnessC12_Consistency", HarnessC12_Consistency)
	vfRegisterBubble("HarnessC12_Lookback", HarnessC12_Lookback)
}

var vfTenants = []string{"tenant-a", "tenant-b", "t3"}

// vfC12Desc: n instances, all ACTIVE with >=1 token; symbolic tokens,
// registration time and read-only status.
func vfC12Desc(n, maxTok int, zoned bool, nzones int, now int64, symTimes bool) *Desc {
	d := NewDesc()
	for i := 0; i < n; i++ {
		id := vfIDs[i]
		zone := ""
		if zoned {
			zone = vfZones[vfChoice("zone", nzones)]
		} else if nzones < 0 {
			// zone-awareness off, but the instances still carry zone labels
			zone = vfZones[i%2]
		}
		nt := 1 + vfChoice("ntok", maxTok)
		reg, rots := now-1000, int64(0)
		ro := vfBool("ro_" + id)
		if symTimes && i < vfParam("hist", 8) {
			reg = vfI64("reg_" + id)
			// the query time may lie before the latest registrations (clock skew,
			// `now` captured before the ring was read): up to 1000 s in the future
			vfAssume(vfAnd(reg >= 1, reg <= now+1000))
			rots = vfI64("rots_" + id)
			vfAssume(vfAnd(rots >= 0, rots <= now))
		}
		d.Ingesters[id] = InstanceDesc{Id: id, Addr: id, Zone: zone, State: ACTIVE, Timestamp: now,
			RegisteredTimestamp: reg, ReadOnly: ro, ReadOnlyUpdatedTimestamp: rots, Tokens: vfSymTokens("tok_"+id, nt)}
	}
	vfAssumeDistinctTokens(d)
	return d
}

func vfMembers(rr ReadRing) map[string]InstanceDesc {
	return rr.(*Ring).ringDesc.Ingesters
}

func vfCeilDiv(a, b int) int { return (a + b - 1) / b }

func HarnessC12_Basic() {
	maxInst := vfParam("inst", 3)
	n := 1 + vfChoice("n", maxInst)
	zoneAware := vfChoice("za", 2) == 1
	nz := 1
	if zoneAware {
		nz = 1 + vfChoice("nzones", vfParam("zones", 2))
	} else if vfChoice("labels", 2) == 1 {
		nz = -1 // zone-awareness off with labelled instances
	}
	d := vfC12Desc(n, vfParam("tok", 1), zoneAware, nz, vfEpoch, false)
	r := vfMkRing(d, 2, zoneAware, time.Minute)
	tenant := vfTenants[vfChoice("tenant", vfParam("tenants", 2))]
	size := vfChoice("size", n+2) // 0 .. n+1
	s1 := vfMembers(r.ShuffleShard(tenant, size))
	s2 := vfMembers(r.ShuffleShard(tenant, size))
	// determinism
	vfAssert(len(s1) == len(s2), "C12 shard depends only on ring content, identifier and size")
	for id := range s1 {
		_, ok := s2[id]
		vfAssert(ok, "C12 shard depends only on ring content, identifier and size")
	}
	ids := make([]string, 0, len(s1))
	for _, id := range vfSortedIDs(d) {
		if _, ok := s1[id]; ok {
			ids = append(ids, id)
		}
	}
	vfObserve("members", ids)
	// no read-only member
	for id := range s1 {
		vfAssert(!d.Ingesters[id].ReadOnly, "C12 shard excludes read-only instances")
	}
	// right-sized per zone
	zones := map[string]bool{}
	for _, ing := range d.Ingesters {
		if zoneAware {
			zones[ing.Zone] = true
		} else {
			zones["*"] = true // zone labels are ignored: one pool
		}
	}
	perZone := size
	if zoneAware {
		perZone = vfCeilDiv(size, len(zones))
	}
	for z := range zones {
		eligible, got := 0, 0
		for id, ing := range d.Ingesters {
			if zoneAware && ing.Zone != z {
				continue
			}
			if !ing.ReadOnly {
				eligible++
			}
			if _, ok := s1[id]; ok {
				got++
			}
		}
		want := eligible
		if size > 0 && perZone < eligible {
			want = perZone
		}
		vfAssert(got == want, "C12 shard holds the requested number of instances per zone, fewer only where the zone runs out of eligible instances")
	}
	// contains the shard of every smaller size
	if size >= 2 {
		small := vfMembers(r.ShuffleShard(tenant, size-1))
		for id := range small {
			_, ok := s1[id]
			vfAssert(ok, "C12 shard contains the shard of every smaller size")
		}
	}
	vfCover("c12-basic-done")
}

// HarnessC12_Consistency: adding one instance X (with tokens, to an existing
// zone) changes the shard by at most one added and one removed instance.
func HarnessC12_Consistency() {
	maxInst := vfParam("inst", 3)
	n := 1 + vfChoice("n", maxInst)
	zoneAware := vfChoice("za", 2) == 1
	nz := 1
	if zoneAware {
		nz = 1 + vfChoice("nzones", vfParam("zones", 2))
	}
	d := vfC12Desc(n, 1, zoneAware, nz, vfEpoch, false)
	d2 := NewDesc()
	for id, ing := range d.Ingesters {
		d2.Ingesters[id] = ing
	}
	xzone := ""
	if zoneAware {
		// X joins a zone that already exists (a new zone changes the per-zone quota by design)
		xzone = d.Ingesters[vfIDs[vfChoice("xzone_of", n)]].Zone
	}
	d2.Ingesters["x"] = InstanceDesc{Id: "x", Addr: "x", Zone: xzone, State: ACTIVE, Timestamp: vfEpoch,
		RegisteredTimestamp: vfEpoch, ReadOnly: vfBool("ro_x"), Tokens: vfSymTokens("tok_x", 1)}
	vfAssumeDistinctTokens(d2)
	r1 := vfMkRing(d, 2, zoneAware, time.Minute)
	r2 := vfMkRing(d2, 2, zoneAware, time.Minute)
	tenant := vfTenants[vfChoice("tenant", vfParam("tenants", 2))]
	size := 1 + vfChoice("size", n+1)
	s1 := vfMembers(r1.ShuffleShard(tenant, size))
	s2 := vfMembers(r2.ShuffleShard(tenant, size))
	added, removed := 0, 0
	for id := range s2 {
		if _, ok := s1[id]; !ok {
			added++
		}
	}
	for id := range s1 {
		if _, ok := s2[id]; !ok {
			removed++
		}
	}
	vfObserve("added", added)
	vfObserve("removed", removed)
	vfAssert(added <= 1 && removed <= 1, "C12 adding or removing one instance changes the shard by at most one instance")
	vfCover("c12-consistency-done")
}

// HarnessC12_Lookback: the look-back shard contains the plain shard, and every
// still-registered instance of the shard as it was at any moment tau of the
// window, as far as registration and read-only change times reveal.
func HarnessC12_Lookback() {
	maxInst := vfParam("inst", 3)
	n := 1 + vfChoice("n", maxInst)
	zoneAware := vfChoice("za", vfParam("za", 2)) == 1
	nz := 1
	if zoneAware {
		nz = 1 + vfChoice("nzones", vfParam("zones", 2))
	}
	now := vfI64("now")
	vfAssume(vfAnd(now >= vfEpoch, now <= vfEpoch+(1<<30)))
	vfSetNow(now)
	lookS := vfI64("lookback_s")
	vfAssume(vfAnd(lookS >= 1, lookS <= 1<<24))
	lookback := time.Duration(lookS) * time.Second
	d := vfC12Desc(n, 1, zoneAware, nz, now, true)
	r := vfMkRing(d, 2, zoneAware, time.Minute)
	tenant := vfTenants[vfChoice("tenant", vfParam("tenants", 2))]
	size := 1 + vfChoice("size", n+1)
	plain := vfMembers(r.ShuffleShard(tenant, size))
	lb := vfMembers(r.ShuffleShardWithLookback(tenant, size, lookback, time.Unix(now, 0)))
	for id := range plain {
		_, ok := lb[id]
		vfAssert(ok, "C12 the look-back shard is a superset of the plain shard")
	}
	// the ring as it was at tau: instances registered by tau, with the read-only
	// status they had at tau (one toggle, as the timestamps reveal)
	tau := vfI64("tau")
	vfAssume(vfAnd(tau >= now-lookS, tau <= now))
	// Timestamps have second precision: an event stamped with second T may
	// have happened after an instant of second T that lies inside the window.
	// edge=1 takes events stamped exactly tau as "after tau".
	edge := vfChoice("edge", 2) == 1
	past := NewDesc()
	for id, ing := range d.Ingesters {
		if ing.RegisteredTimestamp > tau || (edge && ing.RegisteredTimestamp == tau) {
			continue // not yet registered at tau
		}
		if ing.ReadOnlyUpdatedTimestamp > tau || (edge && ing.ReadOnlyUpdatedTimestamp == tau) {
			ing.ReadOnly = !ing.ReadOnly // the status was toggled after tau
		}
		past.Ingesters[id] = ing
	}
	if len(past.Ingesters) > 0 {
		rp := vfMkRing(past, 2, zoneAware, time.Minute)
		old := vfMembers(rp.ShuffleShard(tenant, size))
		for id := range old {
			_, ok := lb[id]
			vfAssert(ok, "C12 the look-back shard contains every still-registered instance that belonged to the shard at any moment of the window")
		}
	}
	vfCover("c12-lookback-done")
}

func init() { vfRegister("HarnessC12_Partitions", HarnessC12_Partitions) }

func vfPartMembers(pr *PartitionRing) map[int32]PartitionDesc { return pr.desc.Partitions }

// HarnessC12_Partitions: the partition ring gives the same guarantees over
// active partitions.
func HarnessC12_Partitions() {
	np := 1 + vfChoice("nparts", vfParam("parts", 3))
	now := vfI64("now")
	vfAssume(vfAnd(now >= vfEpoch, now <= vfEpoch+(1<<30)))
	desc := NewPartitionRingDesc()
	var all []uint32
	active := 0
	states := make([]PartitionState, np)
	for p := 0; p < np; p++ {
		tok := vfU32("ptok")
		for _, t := range all {
			vfAssume(t != tok)
		}
		all = append(all, tok)
		// state by choice (the shard size depends on the number of active partitions)
		// every state a descriptor can hold, tombstones included
		st := []PartitionState{PartitionPending, PartitionActive, PartitionInactive, PartitionDeleted}[vfChoice("pstate", 4)]
		states[p] = st
		if st == PartitionActive {
			active++
		}
		ts := vfI64("pts")
		vfAssume(vfAnd(ts >= 1, ts <= now))
		desc.Partitions[int32(p)] = PartitionDesc{Id: int32(p), Tokens: []uint32{tok}, State: st, StateTimestamp: ts}
	}
	pr, err := NewPartitionRing(*desc)
	vfAssert(err == nil, "C12 partition ring builds")
	tenant := vfTenants[vfChoice("tenant", vfParam("tenants", 1))]
	size := vfChoice("size", np+2)
	s1, err1 := pr.ShuffleShard(tenant, size)
	s2, err2 := pr.ShuffleShard(tenant, size)
	vfAssert(err1 == nil && err2 == nil, "C12 partition shard is computed")
	m1, m2 := vfPartMembers(s1), vfPartMembers(s2)
	vfAssert(len(m1) == len(m2), "C12 partition shard depends only on ring content, identifier and size")
	for id := range m1 {
		_, ok := m2[id]
		vfAssert(ok, "C12 partition shard depends only on ring content, identifier and size")
		vfAssert(states[id] == PartitionActive, "C12 a partition shard holds only active partitions")
	}
	want := active
	if size > 0 && size < active {
		want = size
	}
	vfObserve("members", len(m1))
	vfAssert(len(m1) == want, "C12 a partition shard holds the requested number of active partitions (all of them when fewer exist)")
	if size >= 2 {
		small, err := pr.ShuffleShard(tenant, size-1)
		vfAssert(err == nil, "C12 partition shard is computed")
		for id := range vfPartMembers(small) {
			_, ok := m1[id]
			vfAssert(ok, "C12 a partition shard contains the shard of every smaller size")
		}
	}
	// look-back is a superset of the plain shard
	lookS := vfI64("lookback_s")
	vfAssume(vfAnd(lookS >= 1, lookS <= 1<<24))
	lb, err := pr.ShuffleShardWithLookback(tenant, size, time.Duration(lookS)*time.Second, time.Unix(now, 0))
	vfAssert(err == nil, "C12 partition look-back shard is computed")
	for id := range m1 {
		_, ok := vfPartMembers(lb)[id]
		vfAssert(ok, "C12 the partition look-back shard is a superset of the plain shard")
	}
	// the shard as it was at an instant tau of the window: a partition that
	// became inactive after tau was active then; one that became active after
	// tau was not active yet (second granularity as in the instance ring)
	tau := vfI64("tau")
	vfAssume(vfAnd(tau >= now-lookS, tau <= now))
	edge := vfChoice("edge", 2) == 1
	past := NewPartitionRingDesc()
	for id, p := range desc.Partitions {
		changedAfter := p.StateTimestamp > tau || (edge && p.StateTimestamp == tau)
		if changedAfter {
			switch p.State {
			case PartitionInactive:
				p.State = PartitionActive
			case PartitionActive:
				p.State = PartitionInactive
			}
			p.StateTimestamp = 1
		}
		past.Partitions[id] = p
	}
	ppr, err := NewPartitionRing(*past)
	vfAssert(err == nil, "C12 past partition ring builds")
	old, err := ppr.ShuffleShard(tenant, size)
	vfAssert(err == nil, "C12 past partition shard is computed")
	for id := range vfPartMembers(old) {
		_, ok := vfPartMembers(lb)[id]
		vfAssert(ok, "C12 the partition look-back shard contains every partition that belonged to the shard at any moment of the window")
	}
	vfCover("c12-partitions-done")
}

func init() { vfRegister("HarnessC12_PartConsistency", HarnessC12_PartConsistency) }

// HarnessC12_PartConsistency: adding one partition (in any state) to the
// partition ring changes an identifier's shard by at most one added and one
// removed partition.
func HarnessC12_PartConsistency() {
	np := 1 + vfChoice("nparts", vfParam("parts", 3))
	d1 := NewPartitionRingDesc()
	d2 := NewPartitionRingDesc()
	var all []uint32
	newTok := func(name string) uint32 {
		tok := vfU32(name)
		for _, t := range all {
			vfAssume(t != tok)
		}
		all = append(all, tok)
		return tok
	}
	for p := 0; p < np; p++ {
		st := PartitionActive
		if p == 0 {
			st = []PartitionState{PartitionPending, PartitionActive, PartitionInactive}[vfChoice("pstate", 3)]
		}
		pd := PartitionDesc{Id: int32(p), Tokens: []uint32{newTok("ptok")}, State: st, StateTimestamp: 10}
		d1.Partitions[int32(p)] = pd
		d2.Partitions[int32(p)] = pd
	}
	xst := []PartitionState{PartitionPending, PartitionActive, PartitionInactive, PartitionDeleted}[vfChoice("xstate", 4)]
	d2.Partitions[int32(np)] = PartitionDesc{Id: int32(np), Tokens: []uint32{newTok("xtok")}, State: xst, StateTimestamp: 10}
	r1, err1 := NewPartitionRing(*d1)
	r2, err2 := NewPartitionRing(*d2)
	vfAssert(err1 == nil && err2 == nil, "C12 partition rings build")
	tenant := vfTenants[vfChoice("tenant", vfParam("tenants", 1))]
	size := 1 + vfChoice("size", np+1)
	a, e1 := r1.ShuffleShard(tenant, size)
	b, e2 := r2.ShuffleShard(tenant, size)
	vfAssert(e1 == nil && e2 == nil, "C12 partition shards are computed")
	s1, s2 := vfPartMembers(a), vfPartMembers(b)
	added, removed := 0, 0
	for id := range s2 {
		if _, ok := s1[id]; !ok {
			added++
		}
	}
	for id := range s1 {
		if _, ok := s2[id]; !ok {
			removed++
		}
	}
	vfObserve("added", added)
	vfObserve("removed", removed)
	vfAssert(added <= 1 && removed <= 1, "C12 adding or removing one partition changes the partition shard by at most one partition")
	vfCover("c12-part-consistency-done")
}
