//go:build verif

package ring

import (
	"context"
	"math/rand"
	"time"

	"github.com/go-kit/log"
)

// C08 / C05 (owners re-check their tokens after an observe period): the REAL
// actor loops (Lifecycler.loop, BasicLifecycler.starting -> waitStableTokens)
// run on an engine thread against the virtual clock, with their heartbeat
// tickers and observe timers, while the ring may lose one of the instance's
// tokens at any moment of the observation (what conflict resolution does to
// the loser of a collision). Foreign token and the random source are solver
// variables.

func init() {
	vfRegisterBubble("HarnessC08_Loop", HarnessC08_Loop)
	vfRegisterBubble("HarnessC08_BasicObserve", HarnessC08_BasicObserve)
}

// vfDropOwnToken removes the k-th token of the instance's ring entry.
func vfDropOwnToken(store *vfKV, k int) bool {
	d, ok := store.val.(*Desc)
	if !ok || d == nil {
		return false
	}
	me, ok := d.Ingesters[vfOwnID]
	if !ok || len(me.Tokens) <= k {
		return false
	}
	var rest []uint32
	for i, t := range me.Tokens {
		if i != k {
			rest = append(rest, t)
		}
	}
	me.Tokens = rest
	d.Ingesters[vfOwnID] = me
	return true
}

func vfCheckOwnTokens(in *Desc, me InstanceDesc, numTokens int) {
	vfAssert(len(me.Tokens) == numTokens, "C08 the instance holds exactly the configured number of tokens when its tokens are declared stable")
	for i := 1; i < len(me.Tokens); i++ {
		vfAssert(me.Tokens[i-1] < me.Tokens[i], "C08 tokens are sorted and distinct")
	}
	for id, f := range in.Ingesters {
		if id == vfOwnID {
			continue
		}
		for _, t := range me.Tokens {
			vfAssert(t != f.Tokens[0], "C08 no token was visible in the ring as another instance's token")
		}
	}
}

// HarnessC08_Loop: the full Lifecycler's loop from start-up to ACTIVE.
func HarnessC08_Loop() {
	now0 := vfEpoch + 1000
	vfSetNow(now0)
	numTokens := 1 + vfChoice("numtokens", vfParam("tokens", 2))
	observe := vfChoice("observe", 2) == 1
	in := vfArbRingL(1, nil, 0, now0, true)
	store := &vfKV{val: vfCloneDesc(in)}
	flusher := &vfFlusher{gate: make(chan struct{})}
	l := vfNewLifecyclerFT(store, numTokens, &vfRandSrc{max: numTokens + 3}, flusher)
	l.cfg.JoinAfter = 2 * time.Second
	if observe {
		l.cfg.ObservePeriod = 7 * time.Second
	}
	ctx, cancel := context.WithCancel(context.Background())
	done := make(chan error, 1)
	go func() { done <- l.loop(ctx) }()
	vfQuiesce()
	d := store.val.(*Desc)
	me, ok := d.Ingesters[vfOwnID]
	vfAssert(ok && me.State == PENDING && len(me.Tokens) == 0, "C08 a fresh instance registers as pending without tokens")
	prevState, prevTs, reg := me.State, me.Timestamp, me.RegisteredTimestamp
	stolen := false
	steps := vfParam("steps", 10)
	elapsed := time.Duration(0)
	for s := 0; s < steps; s++ {
		if observe && !stolen && prevState == JOINING && vfChoice("steal", 2) == 1 {
			stolen = vfDropOwnToken(store, vfChoice("which", numTokens))
		}
		vfAdvance(2500 * time.Millisecond)
		elapsed += 2500 * time.Millisecond
		vfQuiesce()
		d = store.val.(*Desc)
		me, ok = d.Ingesters[vfOwnID]
		vfAssert(ok, "C08 the instance stays registered")
		vfAssert(vfForeignUntouched(in, d), "C08 the loop edits only the lifecycler's own entry")
		legal := me.State == prevState || (prevState == PENDING && (me.State == JOINING || me.State == ACTIVE)) || (prevState == JOINING && me.State == ACTIVE)
		vfAssert(legal, "C08 published states follow pending, joining, active")
		if observe {
			vfAssert(!(prevState == PENDING && me.State == ACTIVE), "C08 with an observe period the instance passes through joining")
		}
		vfAssert(me.Timestamp >= prevTs, "C08 heartbeat timestamp never goes backwards")
		nowS := now0 + int64(elapsed/time.Second)
		vfAssert(nowS-me.Timestamp <= 5, "C08 the heartbeat is refreshed once per heartbeat period while the store accepts writes")
		vfAssert(me.RegisteredTimestamp == reg, "C08 registration time is set once and then kept")
		if me.State == ACTIVE && prevState != ACTIVE {
			vfCheckOwnTokens(in, me, numTokens)
			vfAssert(vfSameTokens(l.getTokens(), me.Tokens), "C08 the lifecycler remembers the tokens it published")
			vfCover("c08-loop-active")
		}
		if me.State != ACTIVE {
			vfAssert(l.CheckReady(context.Background()) != nil, "C08 not ready before active")
		}
		prevState, prevTs = me.State, me.Timestamp
	}
	vfAssert(prevState == ACTIVE, "C08 the instance becomes active once its tokens are stable")
	cancel()
	vfQuiesce()
	select {
	case err := <-done:
		vfAssert(err == nil, "C08 the loop ends without error")
	default:
		vfAssert(false, "C08 the loop ends when its context ends")
	}
	if vfParam("shutdown", 1) == 1 && prevState == ACTIVE {
		// clean shutdown: leaving is published, heartbeats go on while data is
		// flushed, then the entry is removed (or kept, if so configured)
		unreg := vfChoice("unregister_on_shutdown", 2) == 1
		l.SetUnregisterOnShutdown(unreg)
		// optionally the instance lingers after its shutdown work (final sleep longer than a heartbeat period)
		finalSleep := time.Duration(vfChoice("final_sleep", 2)) * 6 * time.Second
		l.cfg.FinalSleep = finalSleep
		before := vfCloneDesc(store.val.(*Desc))
		stopDone := make(chan error, 1)
		go func() { stopDone <- l.stopping(nil) }()
		vfQuiesce()
		d = store.val.(*Desc)
		me, ok = d.Ingesters[vfOwnID]
		vfAssert(ok && me.State == LEAVING, "C08 a stopping instance publishes leaving")
		vfAssert(vfSameTokens(me.Tokens, before.Ingesters[vfOwnID].Tokens) && me.RegisteredTimestamp == reg, "C08 leaving keeps tokens and registration time")
		vfAssert(flusher.flushed == 1, "C08 data is flushed once on shutdown")
		vfAdvance(5300 * time.Millisecond)
		elapsed += 5300 * time.Millisecond
		vfQuiesce()
		d = store.val.(*Desc)
		me, ok = d.Ingesters[vfOwnID]
		nowS := now0 + int64(elapsed/time.Second)
		vfAssert(ok && me.State == LEAVING && nowS-me.Timestamp <= 5 && me.Timestamp >= prevTs, "C08 the heartbeat is refreshed while the instance is flushing on shutdown")
		select {
		case <-stopDone:
			vfAssert(false, "C08 the instance is not removed before its shutdown work has finished")
		default:
		}
		close(flusher.gate)
		vfQuiesce()
		if finalSleep > 0 {
			vfAdvance(finalSleep + 300*time.Millisecond)
			elapsed += finalSleep + 300*time.Millisecond
			vfQuiesce()
		}
		select {
		case err := <-stopDone:
			vfAssert(err == nil, "C08 shutdown succeeds")
		default:
			vfAssert(false, "C08 shutdown ends once the shutdown work has finished")
		}
		d = store.val.(*Desc)
		me, ok = d.Ingesters[vfOwnID]
		if unreg {
			vfAssert(!ok, "C08 a stopped instance removes its own entry")
		} else {
			vfAssert(ok && me.State == LEAVING && vfSameTokens(me.Tokens, before.Ingesters[vfOwnID].Tokens), "C08 an instance configured to stay registered is left in the ring as leaving with its tokens")
		}
		vfAssert(vfForeignUntouched(in, d), "C08 shutdown edits only the lifecycler's own entry")
		vfCover("c08-loop-shutdown")
	}
	vfCover("c08-loop-done")
}

// vfFlusher: the application's shutdown work, held at a gate by the harness.
type vfFlusher struct {
	gate    chan struct{}
	flushed int
}

func (f *vfFlusher) Flush()                            { f.flushed++; <-f.gate }
func (f *vfFlusher) TransferOut(context.Context) error { return ErrTransferDisabled }

// vfTokensDelegate records what the lifecycler reports as its stable tokens.
type vfTokensDelegate struct {
	BasicLifecyclerDelegate
	calls  int
	tokens Tokens
}

func (d *vfTokensDelegate) OnRingInstanceTokens(l *BasicLifecycler, tokens Tokens) {
	d.calls++
	d.tokens = append(Tokens(nil), tokens...)
	d.BasicLifecyclerDelegate.OnRingInstanceTokens(l, tokens)
}

// HarnessC08_BasicObserve: BasicLifecycler.starting with a tokens observe period.
func HarnessC08_BasicObserve() {
	now0 := vfEpoch + 1000
	vfSetNow(now0)
	numTokens := 1 + vfChoice("numtokens", vfParam("tokens", 2))
	in := vfArbRingL(1, nil, 0, now0, true)
	store := &vfKV{val: vfCloneDesc(in)}
	cfg := BasicLifecyclerConfig{ID: vfOwnID, Addr: "addr-own", Zone: "z", HeartbeatPeriod: 5 * time.Second,
		HeartbeatTimeout: time.Minute, NumTokens: numTokens, TokensObservePeriod: 7 * time.Second}
	cfg.RingTokenGenerator = &RandomTokenGenerator{r: rand.New(&vfRandSrc{max: numTokens + 3})}
	rec := &vfTokensDelegate{BasicLifecyclerDelegate: NewInstanceRegisterDelegate(JOINING, numTokens)}
	l, err := NewBasicLifecycler(cfg, "r", "k", store, rec, log.NewNopLogger(), nil)
	vfAssert(err == nil, "C08 basic lifecycler is created")
	ctx, cancel := context.WithCancel(context.Background())
	done := make(chan error, 1)
	go func() { done <- l.starting(ctx) }()
	vfQuiesce()
	d := store.val.(*Desc)
	me, ok := d.Ingesters[vfOwnID]
	vfAssert(ok && me.State == JOINING && len(me.Tokens) == numTokens, "C08 the instance registers with the configured number of tokens")
	prevTs, reg := me.Timestamp, me.RegisteredTimestamp
	stolen, finished := false, false
	steps := vfParam("steps", 8)
	elapsed := time.Duration(0)
	for s := 0; s < steps && !finished; s++ {
		if !stolen && vfChoice("steal", 2) == 1 {
			stolen = vfDropOwnToken(store, vfChoice("which", numTokens))
		}
		vfAdvance(2500 * time.Millisecond)
		elapsed += 2500 * time.Millisecond
		vfQuiesce()
		select {
		case err := <-done:
			finished = true
			vfAssert(err == nil, "C08 start-up succeeds")
		default:
		}
		d = store.val.(*Desc)
		me, ok = d.Ingesters[vfOwnID]
		vfAssert(ok, "C08 the instance stays registered")
		vfAssert(vfForeignUntouched(in, d), "C08 start-up edits only the lifecycler's own entry")
		vfAssert(me.State == JOINING, "C08 the state chosen by the delegate is kept during observation")
		vfAssert(me.Timestamp >= prevTs, "C08 heartbeat timestamp never goes backwards")
		nowS := now0 + int64(elapsed/time.Second)
		if !finished {
			vfAssert(nowS-me.Timestamp <= 5, "C08 the heartbeat is refreshed once per heartbeat period while observing")
		}
		vfAssert(me.RegisteredTimestamp == reg, "C08 registration time is set once and then kept")
		prevTs = me.Timestamp
	}
	vfAssert(finished, "C08 start-up ends once the tokens are stable")
	if finished {
		vfCheckOwnTokens(in, me, numTokens)
		vfAssert(vfSameTokens(l.GetTokens(), me.Tokens), "C08 the lifecycler remembers the tokens the ring holds for it")
		vfAssert(rec.calls == 1 && vfSameTokens(rec.tokens, me.Tokens), "C08 the tokens reported as stable (and persisted) are the ones the ring holds")
	}
	cancel()
	vfQuiesce()
	vfCover("c08-basic-observe-done")
}
