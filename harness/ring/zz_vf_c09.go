//go:build verif

package ring

import (
	"context"
	"errors"
)

// C09 - a lifecycler recovers its identity after a crash at any point or KV
// faults. The process is the sequence of ring writes the lifecycler loop
// performs (each write is one CAS); a crash cuts the sequence after any write;
// a fresh lifecycler with the same identity then runs the start-up sequence.

func init() {
	vfRegisterBubble("HarnessC09_CrashRestart", HarnessC09_CrashRestart)
	vfRegisterBubble("HarnessC09_StoreFaults", HarnessC09_StoreFaults)
}

var vfErrStore = errors.New("store unavailable")

// vfFaultyKV fails CAS calls inside a window of call numbers.
type vfFaultyKV struct {
	vfKV
	failFrom, failTo int
}

func (k *vfFaultyKV) CAS(ctx context.Context, key string, f func(in interface{}) (out interface{}, retry bool, err error)) error {
	n := k.calls
	if n >= k.failFrom && n < k.failTo {
		k.calls++
		return vfErrStore
	}
	return k.vfKV.CAS(ctx, key, f)
}

// vfStartUp is what the lifecycler loop does on start: initRing, then (join
// period elapsed) join if still pending, then heartbeat.
func vfStartUp(l *Lifecycler, observe bool) {
	ctx := context.Background()
	vfAssert(l.initRing(ctx) == nil, "C09 initRing succeeds")
	if l.GetState() == PENDING {
		if observe {
			vfAssert(l.autoJoin(ctx, JOINING) == nil, "C09 autoJoin(JOINING) succeeds")
			if l.verifyTokens(ctx) {
				vfAssert(l.changeState(ctx, ACTIVE) == nil, "C09 changeState(ACTIVE) succeeds")
			}
		} else {
			vfAssert(l.autoJoin(ctx, ACTIVE) == nil, "C09 autoJoin(ACTIVE) succeeds")
		}
	}
	vfAssert(l.updateConsul(ctx) == nil, "C09 heartbeat succeeds")
}

func HarnessC09_CrashRestart() {
	now := vfNowSym()
	numTokens := 1 + vfChoice("numtokens", 2)
	observe := vfChoice("observe", 2) == 1
	unregister := vfChoice("unregister", 2) == 1
	in := vfArbRingL(vfParam("foreign", 1), nil, 0, now, true)
	store := &vfKV{val: vfCloneDesc(in)}
	ctx := context.Background()
	l1 := vfNewLifecycler(store, numTokens, &vfRandSrc{max: numTokens + 1})
	// the first process: its ring writes, in the order the loop performs them
	steps := []func(){
		func() { l1.initRing(ctx) },
	}
	if observe {
		steps = append(steps,
			func() { l1.autoJoin(ctx, JOINING) },
			func() {
				if l1.verifyTokens(ctx) {
					l1.changeState(ctx, ACTIVE)
				}
			})
	} else {
		steps = append(steps, func() { l1.autoJoin(ctx, ACTIVE) })
	}
	steps = append(steps,
		func() { l1.updateConsul(ctx) },
		func() { l1.changeState(ctx, LEAVING) })
	if unregister {
		steps = append(steps, func() { l1.unregister(ctx) })
	}
	// crash after k committed writes (k = 0: before the first write)
	k := vfChoice("crash_after", len(steps)+1)
	for i := 0; i < k; i++ {
		steps[i]()
	}
	atCrash := vfCloneDesc(store.val.(*Desc))
	left, had := atCrash.Ingesters[vfOwnID]
	vfObserve("state_at_crash", left.State)

	// restart with the same identity, a little later
	later := vfI64("later")
	vfAssume(vfAnd(later >= now, later <= now+(1<<20)))
	vfSetNow(later)
	l2 := vfNewLifecycler(store, numTokens, &vfRandSrc{max: numTokens + 1})
	vfAssert(l2.initRing(ctx) == nil, "C09 restart: initRing succeeds")
	if had {
		vfAssert(l2.getRegisteredAt().Unix() == left.RegisteredTimestamp, "C09 the registration time recorded in the ring is kept")
		switch left.State {
		case JOINING:
			vfAssert(l2.GetState() == PENDING, "C09 a lifecycler that died while joining restarts from pending")
			vfCover("c09-died-joining")
		case LEAVING:
			vfAssert(l2.GetState() == ACTIVE, "C09 a lifecycler that died while leaving returns to active")
			vfCover("c09-died-leaving")
		}
	}
	// the rest of the start-up sequence
	if l2.GetState() == PENDING {
		if observe {
			vfAssert(l2.autoJoin(ctx, JOINING) == nil, "C09 restart: autoJoin succeeds")
			if l2.verifyTokens(ctx) {
				vfAssert(l2.changeState(ctx, ACTIVE) == nil, "C09 restart: changeState(ACTIVE) succeeds")
			}
		} else {
			vfAssert(l2.autoJoin(ctx, ACTIVE) == nil, "C09 restart: autoJoin succeeds")
		}
	}
	vfAssert(l2.updateConsul(ctx) == nil, "C09 restart: heartbeat succeeds")
	out := store.val.(*Desc)
	me, ok := out.Ingesters[vfOwnID]
	vfAssert(ok, "C09 the instance is registered after restart")
	vfAssert(me.State == ACTIVE, "C09 the restarted lifecycler reaches the active state")
	vfAssert(len(me.Tokens) == numTokens, "C09 with its full token count")
	for i := 1; i < len(me.Tokens); i++ {
		vfAssert(me.Tokens[i-1] < me.Tokens[i], "C09 tokens sorted and distinct")
	}
	for id, f := range in.Ingesters {
		if id == vfOwnID {
			continue
		}
		for _, t := range me.Tokens {
			vfAssert(t != f.Tokens[0], "C09 without colliding with other instances")
		}
	}
	if had && len(left.Tokens) == numTokens {
		vfAssert(vfSameTokens(me.Tokens, left.Tokens), "C09 tokens recorded in the ring are kept")
	}
	if had {
		vfAssert(me.RegisteredTimestamp == left.RegisteredTimestamp, "C09 registration time is kept across the restart")
	}
	vfAssert(vfForeignUntouched(in, out), "C09 other instances are untouched")
	vfCover("c09-restart-done")
}

// HarnessC09_StoreFaults: the store rejects writes for a while and/or loses the
// ring; the running lifecycler re-registers itself at a later heartbeat.
func HarnessC09_StoreFaults() {
	now := vfNowSym()
	numTokens := 1 + vfChoice("numtokens", 2)
	in := vfArbRingL(1, nil, 0, now, true)
	store := &vfFaultyKV{failFrom: 1 << 30}
	store.val = vfCloneDesc(in)
	ctx := context.Background()
	var cfgStore *vfFaultyKV = store
	l := vfNewLifecyclerKV(cfgStore, numTokens, &vfRandSrc{max: numTokens + 2})
	vfAssert(l.initRing(ctx) == nil, "C09 initRing succeeds")
	vfAssert(l.autoJoin(ctx, ACTIVE) == nil, "C09 autoJoin succeeds")
	leaving := vfChoice("leaving", 2) == 1
	mine := store.val.(*Desc).Ingesters[vfOwnID]
	if leaving {
		if vfChoice("leaving_write_rejected", 2) == 1 {
			// the store rejects exactly the write that publishes the state change;
			// the lifecycler remembers the new state and publishes it later
			store.failFrom, store.failTo = store.calls, store.calls+1
			vfAssert(l.changeState(ctx, LEAVING) != nil, "C09 a rejected write is reported")
			store.failFrom = 1 << 30
			mine.State = LEAVING
		} else {
			vfAssert(l.changeState(ctx, LEAVING) == nil, "C09 changeState(LEAVING) succeeds")
			mine = store.val.(*Desc).Ingesters[vfOwnID]
		}
	}
	// faults: a window of failing writes, then optionally a wipe of the ring key
	nFail := vfChoice("failing_heartbeats", 3)
	store.failFrom, store.failTo = store.calls, store.calls+nFail
	for i := 0; i < nFail; i++ {
		vfAssert(l.updateConsul(ctx) != nil, "C09 a rejected write is reported")
	}
	wiped := vfChoice("wiped", 2) == 1
	if wiped {
		store.val = nil
	}
	later := vfI64("later")
	vfAssume(vfAnd(later >= now, later <= now+(1<<20)))
	vfSetNow(later)
	vfAssert(l.updateConsul(ctx) == nil, "C09 the next heartbeat after the faults succeeds")
	out := store.val.(*Desc)
	me, ok := out.Ingesters[vfOwnID]
	vfAssert(ok, "C09 the lifecycler re-registers itself")
	vfAssert(me.State == mine.State, "C09 with its remembered state")
	vfAssert(vfSameTokens(me.Tokens, mine.Tokens), "C09 and its remembered tokens")
	vfAssert(me.Timestamp == later, "C09 the heartbeat is fresh")
	if wiped {
		vfAssert(me.RegisteredTimestamp == later, "C09 after the store lost the ring the registration time is fresh")
		vfCover("c09-faults-wiped")
	} else {
		vfAssert(me.RegisteredTimestamp == mine.RegisteredTimestamp, "C09 registration time is kept while the entry survives")
		vfCover("c09-faults-kept")
	}
}
