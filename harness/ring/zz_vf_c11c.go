//go:build verif

package ring

import (
	"context"
	"sync"
	"time"
)

// C11 - the legacy executor ReplicationSet.Do with delayed extra requests:
// replica calls block until the controller completes them (every order and
// outcome), the delay elapses, or the caller goes away.

func init() { vfRegisterBubble("HarnessC11_Do", HarnessC11_Do) }

func HarnessC11_Do() {
	n := 1 + vfChoice("n", vfParam("inst", 3))
	zoneAware := vfChoice("za", 2) == 1
	insts := make([]InstanceDesc, n)
	nz := 0
	for i := range insts {
		zone := ""
		if zoneAware {
			z := vfChoice("zone", nz+1)
			zone = vfZones[z]
			if z == nz {
				nz++
			}
		}
		insts[i] = InstanceDesc{Id: vfIDs[i], Addr: vfIDs[i], Zone: zone, State: ACTIVE}
	}
	rs := ReplicationSet{Instances: insts, ZoneAwarenessEnabled: zoneAware}
	tol := vfInt("tolerance")
	if zoneAware {
		// the executor switches to zone accounting only for a positive zone tolerance
		vfAssume(vfAnd(tol >= 1, tol < nz))
		rs.MaxUnavailableZones = tol
	} else {
		vfAssume(vfAnd(tol >= 0, tol < n))
		rs.MaxErrors = tol
	}
	delay := time.Duration(0)
	if vfChoice("delayed", 2) == 1 {
		delay = time.Second
	}
	var mu sync.Mutex
	var calls []*vfReadCall
	f := func(ctx context.Context, d *InstanceDesc) (interface{}, error) {
		idx := -1
		for i := range insts {
			if insts[i].Id == d.Id {
				idx = i
			}
		}
		c := &vfReadCall{idx: idx, ctx: ctx, release: make(chan int)}
		mu.Lock()
		calls = append(calls, c)
		mu.Unlock()
		out := <-c.release
		mu.Lock()
		c.done, c.outcome = true, out
		mu.Unlock()
		if out == 1 {
			return nil, vfErrReplica
		}
		return idx + 1, nil
	}
	ctx, cancel := context.WithCancel(context.Background())
	returned := false
	var results []interface{}
	var rerr error
	go func() {
		res, err := rs.Do(ctx, delay, f)
		mu.Lock()
		returned, results, rerr = true, res, err
		mu.Unlock()
	}()
	okCnt, failCnt := 0, 0
	okIdx := map[int]bool{}
	zoneFailed := map[string]bool{}
	cancelled, ticked := false, false
	snapshot := func() (bool, []interface{}, error, []*vfReadCall) {
		mu.Lock()
		defer mu.Unlock()
		return returned, append([]interface{}(nil), results...), rerr, append([]*vfReadCall(nil), calls...)
	}
	check := func() {
		ret, res, err, cs := snapshot()
		seen := map[int]int{}
		for _, c := range cs {
			seen[c.idx]++
			vfAssert(seen[c.idx] == 1, "C11 each instance is called at most once")
		}
		mustFail, mustSucceed := false, false
		if zoneAware {
			mustFail = len(zoneFailed) > tol
			// success: every instance of all but the tolerated zones answered
			zonesDone := 0
			for z := 0; z < nz; z++ {
				all := true
				for i := range insts {
					if insts[i].Zone == vfZones[z] && !okIdx[i] {
						all = false
					}
				}
				if all {
					zonesDone++
				}
			}
			mustSucceed = zonesDone >= nz-tol
		} else {
			mustFail = failCnt > tol
			mustSucceed = okCnt >= n-tol
		}
		if !ret {
			vfAssert(!mustFail, "C11 an error is returned once the tolerated failures are exceeded")
			vfAssert(!mustSucceed, "C11 results are returned once the success criterion holds")
			vfAssert(!cancelled, "C11 the executor returns once the caller's context has ended")
			if !zoneAware && delay > 0 && !ticked && failCnt == 0 {
				vfAssert(len(cs) == n-tol, "C11 with a delay only the needed requests are sent until a failure or the delay releases more")
			}
			return
		}
		if err != nil {
			vfAssert(mustFail || cancelled, "C11 an error is returned only when the tolerated failures are exceeded or the caller's context has ended")
			vfAssert(len(res) == 0, "C11 no results are returned together with an error")
			return
		}
		vfAssert(mustSucceed || (!mustFail && false), "C11 results are returned only once the success criterion holds")
		// only results of successful calls, each at most once
		got := map[int]int{}
		for _, v := range res {
			iv, _ := v.(int)
			got[iv-1]++
			vfAssert(okIdx[iv-1] && got[iv-1] == 1, "C11 returned results come only from calls that succeeded")
		}
		if !zoneAware {
			vfAssert(len(res) >= n-tol, "C11 results of all but the tolerated number of instances are returned")
		}
	}
	for step := 0; step < 2*n+3; step++ {
		vfQuiesce()
		check()
		ret, _, _, cs := snapshot()
		var pend []*vfReadCall
		for _, c := range cs {
			if !c.done {
				pend = append(pend, c)
			}
		}
		opts := len(pend)
		canTick := delay > 0 && !ticked
		canCancel := !cancelled && !ret
		nOpts := opts
		if canTick {
			nOpts++
		}
		if canCancel {
			nOpts++
		}
		if nOpts == 0 {
			break
		}
		a := 0
		if nOpts > 1 {
			a = vfChoice("next", nOpts)
		}
		switch {
		case a < opts:
			c := pend[a]
			out := vfChoice("outcome", 2)
			// the deciding counters move before the call returns, as the call's
			// outcome is fixed at this point
			if out == 0 {
				okCnt++
				okIdx[c.idx] = true
			} else {
				failCnt++
				zoneFailed[insts[c.idx].Zone] = true
			}
			c.release <- out
		case canTick && a == opts:
			ticked = true
			vfAdvance(delay)
		default:
			cancelled = true
			cancel()
		}
	}
	vfQuiesce()
	check()
	// let everything end: the executor has returned or will once the caller goes away
	cancel()
	vfQuiesce()
	ret, _, _, cs := snapshot()
	vfAssert(ret, "C11 the executor returns once the caller's context has ended")
	for _, c := range cs {
		if !c.done {
			vfAssert(c.ctx.Err() != nil, "C11 the context of every call whose result is not used is cancelled")
			c.release <- 1
		}
	}
	vfQuiesce()
	vfAssert(vfBlockedThreads() == 0, "C11 no call is left blocked after the executor returned")
	vfCover("c11-do-done")
}
