//go:build verif

package ring

import "os"

// C09 (tokens file) - an interrupted tokens-file write never leaves a corrupt
// file behind. The file system is the engine's model (create / write / close /
// rename / read / remove with a crash injected inside any one operation, a
// write leaving nothing, half or all of its bytes); the JSON codec is
// summarised by an injective encoding in which no proper prefix is valid.

func init() { vfRegister("HarnessC09_TokensFile", HarnessC09_TokensFile) }

func vfSameTokenList(a, b Tokens) bool {
	if len(a) != len(b) {
		return false
	}
	res := true
	for i := range a {
		res = vfAnd(res, a[i] == b[i])
	}
	return res
}

func HarnessC09_TokensFile() {
	path := "/tmp/vf_c09_tokens.json"
	_ = os.Remove(path)
	_ = os.Remove(path + ".tmp")
	hasOld := vfChoice("has_old", 2) == 1
	o0, o1 := vfU32("old0"), vfU32("old1")
	vfAssume(o0 < o1)
	old := Tokens{o0, o1}
	if hasOld {
		vfAssert(old.StoreToFile(path) == nil, "C09 storing tokens succeeds")
	}
	n0, n1, n2 := vfU32("new0"), vfU32("new1"), vfU32("new2")
	vfAssume(vfAnd(n0 < n1, n1 < n2))
	nw := Tokens{n0, n1, n2}
	// the process dies inside the k-th file-system operation of the store (k beyond the last one: no crash)
	crashAt := vfChoice("crash_at", 6)
	completed := false
	func() {
		defer func() { _ = recover() }()
		vfFsCrashAt(crashAt)
		if err := nw.StoreToFile(path); err == nil {
			completed = true
		}
	}()
	vfFsCrashAt(-1)
	got, err := LoadTokensFromFile(path)
	if err != nil {
		vfAssert(!hasOld && !completed, "C09 an interrupted tokens-file write never leaves a corrupt or missing file behind when a complete one existed")
		vfAssert(got == nil, "C09 a failed load yields no tokens")
		vfCover("c09-tokensfile-absent")
	} else {
		isNew := vfSameTokenList(got, nw)
		isOld := hasOld && vfSameTokenList(got, old)
		vfAssert(vfOr(isNew, isOld), "C09 after an interrupted write the tokens file holds either the previous or the new tokens, never anything else")
		if completed {
			vfAssert(isNew, "C09 a store that returned success is what a later load yields")
		}
		vfCover("c09-tokensfile-readable")
	}
	// after a restart the store can be repeated whatever the crash left behind
	vfAssert(nw.StoreToFile(path) == nil, "C09 the tokens file can be written again after a crash")
	again, err2 := LoadTokensFromFile(path)
	vfAssert(err2 == nil && vfSameTokenList(again, nw), "C09 the repeated store is what a later load yields")
	_ = os.Remove(path)
	_ = os.Remove(path + ".tmp")
	vfCover("c09-tokensfile-done")
}
