//go:build verif

package ring

import (
	"context"
	"os"
)

// C09 (tokens file) - an interrupted tokens-file write never leaves a corrupt
// file behind. The file system is the engine's model (create / write / close /
// rename / read / remove with a crash injected inside any one operation, a
// write leaving nothing, half or all of its bytes); the JSON codec is
// summarised by an injective encoding in which no proper prefix is valid.

func init() { vfRegister("HarnessC09_TokensFile", HarnessC09_TokensFile) }

func vfSameTokenList(a, b Tokens) bool {
	if len(a) != len(b) {
		return false
	}
	res := true
	for i := range a {
		res = vfAnd(res, a[i] == b[i])
	}
	return res
}

func HarnessC09_TokensFile() {
	path := "/tmp/vf_c09_tokens.json"
	_ = os.Remove(path)
	_ = os.Remove(path + ".tmp")
	hasOld := vfChoice("has_old", 2) == 1
	o0, o1 := vfU32("old0"), vfU32("old1")
	vfAssume(o0 < o1)
	old := Tokens{o0, o1}
	if hasOld {
		vfAssert(old.StoreToFile(path) == nil, "C09 storing tokens succeeds")
	}
	n0, n1, n2 := vfU32("new0"), vfU32("new1"), vfU32("new2")
	vfAssume(vfAnd(n0 < n1, n1 < n2))
	nw := Tokens{n0, n1, n2}
	// the process dies inside the k-th file-system operation of the store (k beyond the last one: no crash)
	crashAt := vfChoice("crash_at", 6)
	completed := false
	func() {
		defer func() { _ = recover() }()
		vfFsCrashAt(crashAt)
		if err := nw.StoreToFile(path); err == nil {
			completed = true
		}
	}()
	vfFsCrashAt(-1)
	got, err := LoadTokensFromFile(path)
	if err != nil {
		vfAssert(!hasOld && !completed, "C09 an interrupted tokens-file write never leaves a corrupt or missing file behind when a complete one existed")
		vfAssert(got == nil, "C09 a failed load yields no tokens")
		vfCover("c09-tokensfile-absent")
	} else {
		isNew := vfSameTokenList(got, nw)
		isOld := hasOld && vfSameTokenList(got, old)
		vfAssert(vfOr(isNew, isOld), "C09 after an interrupted write the tokens file holds either the previous or the new tokens, never anything else")
		if completed {
			vfAssert(isNew, "C09 a store that returned success is what a later load yields")
		}
		vfCover("c09-tokensfile-readable")
	}
	// after a restart a shorter list than the one whose write was interrupted is
	// stored (a longer temporary file may have been left behind), again possibly
	// interrupted
	short := Tokens{n1}
	crash2 := vfChoice("crash_at_2", 6)
	done2 := false
	func() {
		defer func() { _ = recover() }()
		vfFsCrashAt(crash2)
		if err := short.StoreToFile(path); err == nil {
			done2 = true
		}
	}()
	vfFsCrashAt(-1)
	if !done2 {
		vfAssert(short.StoreToFile(path) == nil, "C09 the tokens file can be written again after a crash")
	}
	last, err3 := LoadTokensFromFile(path)
	vfAssert(err3 == nil && vfSameTokenList(last, short), "C09 a shorter token list stored after an interrupted write is what a later load yields, whatever temporary file was left behind")
	// and the store can be repeated whatever the crashes left behind
	vfAssert(nw.StoreToFile(path) == nil, "C09 the tokens file can be written again after a crash")
	again, err2 := LoadTokensFromFile(path)
	vfAssert(err2 == nil && vfSameTokenList(again, nw), "C09 the repeated store is what a later load yields")
	_ = os.Remove(path)
	_ = os.Remove(path + ".tmp")
	vfCover("c09-tokensfile-done")
}

func init() { vfRegisterBubble("HarnessC09_RestartFromFile", HarnessC09_RestartFromFile) }

// HarnessC09_RestartFromFile: restart with a tokens file. The file's tokens are
// used exactly when the ring holds no entry for the instance; an existing ring
// entry wins; with its full token count the instance comes back ACTIVE.
func HarnessC09_RestartFromFile() {
	now := vfNowSym()
	path := "/tmp/vf_c09_restart_tokens.json"
	_ = os.Remove(path)
	_ = os.Remove(path + ".tmp")
	nFile := vfChoice("file_tokens", 3) // 0: no file
	var fileToks Tokens
	if nFile > 0 {
		fileToks = Tokens(vfSymTokens("file_tok", nFile))
		vfAssert(fileToks.StoreToFile(path) == nil, "C09 storing tokens succeeds")
	}
	own := &vfOwnGen{present: vfChoice("own_present", 2) == 1}
	ownTok := 0
	if own.present {
		ownTok = vfChoice("own_ntok", 3) // an entry registered without tokens yet is still an entry
	}
	in := vfArbRing(1, own, ownTok, now)
	for _, t := range fileToks {
		for _, ing := range in.Ingesters {
			for _, u := range ing.Tokens {
				vfAssume(t != u)
			}
		}
	}
	store := &vfKV{val: vfCloneDesc(in)}
	l := vfNewLifecycler(store, 2, &vfRandSrc{max: 4})
	l.cfg.TokensFilePath = path
	vfAssert(l.initRing(context.Background()) == nil, "C09 start-up succeeds")
	out := store.val.(*Desc)
	vfAssert(vfForeignUntouched(in, out), "C09 start-up edits only the lifecycler's own entry")
	me, ok := out.Ingesters[vfOwnID]
	vfAssert(ok, "C09 the instance is registered at start-up")
	if !own.present {
		vfAssert(me.RegisteredTimestamp == now, "C09 a fresh registration time when the ring had no entry")
		if nFile > 0 {
			vfAssert(vfSameTokens(me.Tokens, fileToks), "C09 tokens from the tokens file are kept as they are")
			if nFile >= 2 {
				vfAssert(me.State == ACTIVE, "C09 with its full token count from the file the instance comes back active")
			} else {
				vfAssert(me.State == PENDING, "C09 with too few tokens in the file the instance starts from pending")
			}
			vfCover("c09-restart-from-file")
		} else {
			vfAssert(len(me.Tokens) == 0 && me.State == PENDING, "C09 without file and ring entry the instance starts from pending without tokens")
		}
	} else {
		vfAssert(me.RegisteredTimestamp == own.reg, "C09 registration time recorded in the ring is kept")
		if own.st != LEAVING {
			vfAssert(vfSameTokens(me.Tokens, own.toks), "C09 tokens recorded in the ring win over the tokens file")
		}
		vfCover("c09-restart-ring-wins")
	}
	_ = os.Remove(path)
	vfCover("c09-restartfile-done")
}
