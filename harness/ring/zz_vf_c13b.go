//go:build verif

package ring

import (
	"context"
	"time"

	"github.com/go-kit/log"
)

// C13 (partition ring) - cached partition-ring shards and the partition-ring
// watcher are not observable: a long-lived PartitionRing serving a sequence of
// queries at non-monotonic times always answers like a ring freshly built from
// the same content; the watcher always exposes a ring equal to one freshly
// built from the latest content it was given.

func init() {
	vfRegister("HarnessC13_PartitionCache", HarnessC13_PartitionCache)
	vfRegisterBubble("HarnessC13_Watcher", HarnessC13_Watcher)
}

func vfSamePartitionRing(a, b *PartitionRing) bool {
	if len(a.desc.Partitions) != len(b.desc.Partitions) || len(a.desc.Owners) != len(b.desc.Owners) {
		return false
	}
	res := true
	for id, pa := range a.desc.Partitions {
		pb, ok := b.desc.Partitions[id]
		if !ok || len(pa.Tokens) != len(pb.Tokens) {
			return false
		}
		res = vfAnd(res, vfAnd(pa.State == pb.State, vfAnd(pa.StateTimestamp == pb.StateTimestamp, pa.Id == pb.Id)))
		res = vfAnd(res, pa.StateChangeLocked == pb.StateChangeLocked)
		for i := range pa.Tokens {
			res = vfAnd(res, pa.Tokens[i] == pb.Tokens[i])
		}
	}
	for id, oa := range a.desc.Owners {
		ob, ok := b.desc.Owners[id]
		if !ok {
			return false
		}
		res = vfAnd(res, vfAnd(oa.OwnedPartition == ob.OwnedPartition, vfAnd(oa.State == ob.State, oa.UpdatedTimestamp == ob.UpdatedTimestamp)))
	}
	if len(a.ringTokens) != len(b.ringTokens) {
		return false
	}
	for i := range a.ringTokens {
		res = vfAnd(res, a.ringTokens[i] == b.ringTokens[i])
	}
	return res
}

func vfC13PartDesc(np int, now int64, tag string, lean bool) *PartitionRingDesc {
	desc := NewPartitionRingDesc()
	for p := 0; p < np; p++ {
		st := PartitionActive
		if !lean || p == 0 {
			st = []PartitionState{PartitionPending, PartitionActive, PartitionInactive}[vfChoice("pstate"+tag, 3)]
		}
		ts := vfI64("pts" + tag)
		vfAssume(vfAnd(ts >= now-20000, ts <= now+20000))
		desc.Partitions[int32(p)] = PartitionDesc{Id: int32(p), Tokens: []uint32{uint32(1000 * (p + 1))}, State: st, StateTimestamp: ts}
		desc.Owners[vfIDs[p]] = OwnerDesc{OwnedPartition: int32(p), State: OwnerActive, UpdatedTimestamp: ts}
	}
	return desc
}

func vfCloneC13PRD(d *PartitionRingDesc) *PartitionRingDesc {
	c := NewPartitionRingDesc()
	for id, p := range d.Partitions {
		p.Tokens = append([]uint32(nil), p.Tokens...)
		c.Partitions[id] = p
	}
	for id, o := range d.Owners {
		c.Owners[id] = o
	}
	return c
}

// HarnessC13_PartitionCache: queries served from the shard cache (unbounded
// map or a 1-entry LRU) equal the answer of a fresh ring.
func HarnessC13_PartitionCache() {
	np := vfParam("parts", 2)
	nq := vfParam("queries", 2)
	now0 := vfEpoch + 100000
	desc := vfC13PartDesc(np, now0, "", false)
	opts := DefaultPartitionRingOptions()
	if vfChoice("lru", 2) == 1 {
		opts.ShuffleShardCacheSize = 1
	}
	long, err := NewPartitionRingWithOptions(*vfCloneC13PRD(desc), opts)
	vfAssert(err == nil, "C13 partition ring builds")
	look := time.Hour
	for q := 0; q < nq; q++ {
		tenant := vfTenants[vfChoice("tenant", vfParam("tenants", 1))]
		size := 1 + vfChoice("size", np)
		fresh, err := NewPartitionRing(*vfCloneC13PRD(desc))
		vfAssert(err == nil, "C13 partition ring builds")
		if vfChoice("kind", 2) == 0 {
			a, e1 := long.ShuffleShard(tenant, size)
			b, e2 := fresh.ShuffleShard(tenant, size)
			vfAssert(e1 == nil && e2 == nil, "C13 partition shard is computed")
			vfAssert(vfSamePartitionRing(a, b), "C13 a cached partition shard equals the shard of a fresh ring")
		} else {
			nowq := vfI64("query_now")
			vfAssume(vfAnd(nowq >= now0-20000, nowq <= now0+20000))
			a, e1 := long.ShuffleShardWithLookback(tenant, size, look, time.Unix(nowq, 0))
			b, e2 := fresh.ShuffleShardWithLookback(tenant, size, look, time.Unix(nowq, 0))
			vfAssert(e1 == nil && e2 == nil, "C13 partition look-back shard is computed")
			vfAssert(vfSamePartitionRing(a, b), "C13 a cached partition look-back shard equals the look-back shard of a fresh ring at the same query time")
		}
	}
	vfCover("c13-partcache-done")
}

type vfWatchKV struct {
	vfKV
	cb chan func(interface{}) bool
}

func (k *vfWatchKV) WatchKey(ctx context.Context, key string, f func(interface{}) bool) {
	k.cb <- f
	<-ctx.Done()
}

type vfPartDelegate struct {
	calls    int
	lastOld  *PartitionRingDesc
	lastNew  *PartitionRingDesc
	mismatch bool
}

func (d *vfPartDelegate) OnPartitionRingChanged(o, n *PartitionRingDesc) {
	d.calls++
	d.lastOld, d.lastNew = o, n
}

// HarnessC13_Watcher: the watcher service, fed through the store's watch
// callback, always exposes a ring equal to one freshly built from the latest
// content; queries in between (which fill the caches of the ring they hit) do
// not leak into later answers; the delegate sees every change with the
// previous content.
func HarnessC13_Watcher() {
	np := vfParam("parts", 2)
	now0 := vfEpoch + 100000
	vfSetNow(now0)
	first := vfC13PartDesc(np, now0, "_a", vfParam("lean", 1) == 1)
	store := &vfWatchKV{vfKV: vfKV{val: vfCloneC13PRD(first)}, cb: make(chan func(interface{}) bool, 1)}
	if vfChoice("empty_store", 2) == 1 {
		store.val = nil
		first = NewPartitionRingDesc()
	}
	del := &vfPartDelegate{}
	w := NewPartitionRingWatcher("n", "k", store, log.NewNopLogger(), nil).WithDelegate(del)
	ctx, cancel := context.WithCancel(context.Background())
	vfAssert(w.StartAsync(ctx) == nil, "C13 watcher starts")
	vfAssert(w.AwaitRunning(ctx) == nil, "C13 watcher runs")
	cb := <-store.cb
	tenant := vfTenants[0]
	look := time.Hour
	check := func(latest *PartitionRingDesc, queries bool) {
		fresh, err := NewPartitionRing(*vfCloneC13PRD(latest))
		vfAssert(err == nil, "C13 partition ring builds")
		got := w.PartitionRing()
		vfAssert(vfSamePartitionRing(got, fresh), "C13 the watcher exposes exactly the latest content")
		if !queries {
			return
		}
		size := 1 + vfChoice("size", np)
		a, e1 := got.ShuffleShard(tenant, size)
		b, e2 := fresh.ShuffleShard(tenant, size)
		vfAssert(e1 == nil && e2 == nil && vfSamePartitionRing(a, b), "C13 shards served by the watcher's ring equal those of a fresh ring")
		nowq := vfI64("query_now")
		vfAssume(vfAnd(nowq >= now0-20000, nowq <= now0+20000))
		a, e1 = got.ShuffleShardWithLookback(tenant, size, look, time.Unix(nowq, 0))
		b, e2 = fresh.ShuffleShardWithLookback(tenant, size, look, time.Unix(nowq, 0))
		vfAssert(e1 == nil && e2 == nil && vfSamePartitionRing(a, b), "C13 look-back shards served by the watcher's ring equal those of a fresh ring")
	}
	check(first, true)
	vfAssert(del.calls == 1, "C13 the delegate is told about the initial content")
	prev := first
	for u := 0; u < vfParam("updates", 1); u++ {
		var next *PartitionRingDesc
		switch vfChoice("update", 3) {
		case 0: // new arbitrary content
			next = vfC13PartDesc(np, now0, "_b", false)
		case 1: // equal content
			next = vfCloneC13PRD(prev)
		case 2: // a partition is removed
			next = vfCloneC13PRD(prev)
			delete(next.Partitions, 0)
			delete(next.Owners, vfIDs[0])
		}
		calls := del.calls
		vfAssert(cb(vfCloneC13PRD(next)), "C13 the watcher keeps watching after an update")
		check(next, true)
		vfAssert(del.calls == calls+1, "C13 the delegate is called once per update")
		oldRing, _ := NewPartitionRing(*vfCloneC13PRD(prev))
		gotOld, _ := NewPartitionRing(*vfCloneC13PRD(del.lastOld))
		vfAssert(vfSamePartitionRing(oldRing, gotOld), "C13 the delegate receives the previous content as old ring")
		prev = next
	}
	// a missing value is ignored
	vfAssert(cb(nil), "C13 the watcher keeps watching after a missing value")
	check(prev, false)
	cancel()
	vfQuiesce()
	vfCover("c13-watcher-done")
}

// HarnessC13_SharedStore: the gossip store merges updates into its stored value
// in place and hands readers clones that share token storage with it (real
// Desc.Clone). A snapshot handed to a reader must never change afterwards, and
// a long-lived client fed with the store's successive clones must answer like a
// client freshly built from the latest content.
func init() {
	vfRegisterBubble("HarnessC13_SharedStore", HarnessC13_SharedStore)
	vfRegisterBubble("HarnessC05_SharedStore", HarnessC05_SharedStore)
}

func HarnessC13_SharedStore() { vfSharedStore("C13") }

// HarnessC05_SharedStore: the same scenario as an obligation of C05 (a lookup
// index that disagrees with the descriptor it was built from is a broken index).
func HarnessC05_SharedStore() { vfSharedStore("C05") }

func vfSharedStore(p string) {
	now := vfEpoch + 100000
	vfSetNow(now)
	nt := 1 + vfChoice("ntok", vfParam("tok", 2))
	store := NewDesc()
	for i := 0; i < 2; i++ {
		id := vfIDs[i]
		store.Ingesters[id] = InstanceDesc{Id: id, Addr: "addr-" + id, Zone: "z", State: ACTIVE, Timestamp: now - 10,
			RegisteredTimestamp: now - 1000, Tokens: vfSymTokens("tok_"+id, nt)}
	}
	vfAssumeDistinctTokens(store)
	snap1 := store.Clone().(*Desc)
	before := vfCloneFull(snap1) // deep copy: what the reader was given
	client := vfNewRingClient(1, false, true)
	client.updateRingState(snap1)
	// a newer update of i0: same number of tokens, different values (restart with new tokens)
	upd := NewDesc()
	x := store.Ingesters["i0"]
	x.Timestamp = now
	x.Tokens = vfSymTokens("new_tok", nt)
	upd.Ingesters["i0"] = x
	merged := vfCloneFull(store)
	merged.Ingesters["i0"] = InstanceDesc{Id: "i0", Addr: x.Addr, Zone: "z", State: ACTIVE, Timestamp: now, RegisteredTimestamp: x.RegisteredTimestamp,
		Tokens: append([]uint32(nil), x.Tokens...)}
	vfAssumeDistinctTokens(merged)
	_, err := store.mergeWithTime(upd, false, time.Unix(now, 0))
	vfAssert(err == nil, p+" merge succeeds")
	vfAssert(vfSameDesc(snap1, before), p+" a snapshot handed to a reader is never modified by later merges")
	snap2 := store.Clone().(*Desc)
	client.updateRingState(snap2)
	fresh := vfNewRingClient(1, false, true)
	fresh.updateRingState(vfCloneFull(store))
	key := vfU32("key")
	a, e1 := client.Get(key, Write, nil, nil, nil)
	b, e2 := fresh.Get(key, Write, nil, nil, nil)
	vfAssert((e1 == nil) == (e2 == nil), p+" the long-lived client fails exactly when a fresh one does")
	if e1 == nil && e2 == nil {
		vfAssert(len(a.Instances) == len(b.Instances), p+" the long-lived client answers like a fresh one")
		if len(a.Instances) == 1 && len(b.Instances) == 1 {
			vfAssert(a.Instances[0].Id == b.Instances[0].Id, p+" after a token change delivered through shared snapshots the long-lived client answers like a fresh one")
		}
	}
	vfCover("sharedstore-done")
}
