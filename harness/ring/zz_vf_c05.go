//go:build verif

package ring

import "time"

// C05 - each token has one owner on every replica and lookups never see a
// broken index. Inductive step: from an arbitrary state satisfying the
// invariant, one merge of an arbitrary incoming descriptor (colliding,
// unsorted, duplicated tokens) re-establishes the invariant.

func init() {
	vfRegister("HarnessC05_Step", HarnessC05_Step)
	vfRegister("HarnessC05_Winner", HarnessC05_Winner)
	vfRegisterBubble("HarnessC05_Lookups", HarnessC05_Lookups)
}

// vfFreeEntry: an entry with 0..maxTok unconstrained symbolic tokens.
func vfFreeEntry(tag, id string, maxTok int) InstanceDesc {
	ts := vfI64("ts_" + tag + id)
	vfAssume(vfAnd(ts >= 1, ts <= 1<<40))
	st := InstanceState(vfI32("st_" + tag + id))
	vfAssume(vfAnd(st >= ACTIVE, st <= LEFT))
	nt := vfChoice("ntok_"+tag+id, maxTok+1)
	toks := make([]uint32, nt)
	for i := range toks {
		toks[i] = vfU32("tok_" + tag + id)
	}
	return InstanceDesc{Id: id, Addr: "addr-" + id, Zone: "z", State: st, Timestamp: ts, Tokens: toks, RegisteredTimestamp: 7}
}

func vfFreeDesc(tag string, n, maxTok int, first int) *Desc {
	d := NewDesc()
	for i := first; i < first+n; i++ {
		id := vfIDs[i]
		if vfChoice("has_"+tag+id, 2) == 0 {
			continue
		}
		d.Ingesters[id] = vfFreeEntry(tag, id, maxTok)
	}
	return d
}

// vfInv is the representation invariant as a (symbolic) boolean.
func vfInv(d *Desc) bool {
	res := true
	ids := vfSortedIDs(d)
	for _, id := range ids {
		ing := d.Ingesters[id]
		for i := 1; i < len(ing.Tokens); i++ {
			res = vfAnd(res, ing.Tokens[i-1] < ing.Tokens[i])
		}
		if len(ing.Tokens) > 0 {
			res = vfAnd(res, ing.State != LEFT)
		}
	}
	for a := 0; a < len(ids); a++ {
		for b := a + 1; b < len(ids); b++ {
			ia, ib := d.Ingesters[ids[a]], d.Ingesters[ids[b]]
			for _, x := range ia.Tokens {
				for _, y := range ib.Tokens {
					res = vfAnd(res, x != y)
				}
			}
		}
	}
	return res
}

func HarnessC05_Step() {
	nLocal := vfParam("local", 2)
	nIn := vfParam("incoming", 2)
	maxTok := vfParam("tok", 2)
	d := vfFreeDesc("l", nLocal, maxTok, 0)
	vfAssume(vfInv(d))
	// incoming ids overlap the local ones by one id
	o := vfFreeDesc("i", nIn, maxTok, nLocal-1)
	localCAS := vfChoice("localcas", 2) == 1
	now := vfTs("now")
	ch, err := d.mergeWithTime(o, localCAS, time.Unix(now, 0))
	vfAssert(err == nil, "C05 merge does not fail")
	vfAssert(vfInv(d), "C05 merge keeps token lists sorted, duplicate-free, tombstones token-free and every token with a single non-left owner")
	if ch == nil {
		vfCover("c05-step-nochange")
	} else {
		vfCover("c05-step-change")
	}
}

// HarnessC05_Winner: two replicas receiving the same colliding entries resolve
// to the same owner whatever the map iteration order, and the winner is the
// one the statement names.
func HarnessC05_Winner() {
	maxTok := vfParam("tok", 2)
	x := vfFreeEntry("x", vfIDs[0], maxTok)
	y := vfFreeEntry("y", vfIDs[1], maxTok)
	vfAssume(vfAnd(x.State != LEFT, y.State != LEFT))
	// the incoming descriptor with its entries inserted in either order: the
	// engine iterates maps in insertion order, so the two replicas visit the
	// colliding entries in opposite orders (natively the order is random).
	mk := func(xFirst bool) *Desc {
		o := NewDesc()
		ex := InstanceDesc{Id: x.Id, Addr: x.Addr, Zone: "z", State: x.State, Timestamp: x.Timestamp, Tokens: append([]uint32(nil), x.Tokens...), RegisteredTimestamp: 7}
		ey := InstanceDesc{Id: y.Id, Addr: y.Addr, Zone: "z", State: y.State, Timestamp: y.Timestamp, Tokens: append([]uint32(nil), y.Tokens...), RegisteredTimestamp: 7}
		if xFirst {
			o.Ingesters[x.Id] = ex
			o.Ingesters[y.Id] = ey
		} else {
			o.Ingesters[y.Id] = ey
			o.Ingesters[x.Id] = ex
		}
		return o
	}
	r1, r2 := NewDesc(), NewDesc()
	_, err1 := r1.mergeWithTime(mk(true), false, time.Unix(vfEpoch, 0))
	_, err2 := r2.mergeWithTime(mk(false), false, time.Unix(vfEpoch, 0))
	vfAssert(err1 == nil && err2 == nil, "C05 merges do not fail")
	vfAssert(vfSameDesc(r1, r2), "C05 colliding claims resolve to the same owner whatever the iteration order")
	vfAssert(vfInv(r1), "C05 invariant after resolving collisions")
	// the named winner: for every token claimed by both, the non-leaving one
	// (else the smaller id, x) holds it afterwards and the other lacks it.
	for _, t := range x.Tokens {
		for _, u := range y.Tokens {
			if t == u {
				xWins := vfOr(x.State != LEAVING, y.State == LEAVING)
				inX, inY := false, false
				for _, g := range r1.Ingesters[x.Id].Tokens {
					inX = vfOr(inX, g == t)
				}
				for _, g := range r1.Ingesters[y.Id].Tokens {
					inY = vfOr(inY, g == t)
				}
				vfAssert(vfAnd(inX == xWins, inY == !xWins), "C05 a leaving instance loses to one that is not, otherwise the smaller identifier wins; the loser lacks the token")
				vfCover("c05-winner-collision")
			}
		}
	}
}

// HarnessC05_Lookups: every state produced by a merge step can be indexed and
// queried without panic and without inconsistent-token errors.
func HarnessC05_Lookups() {
	// Lemma: any state satisfying the invariant (which HarnessC05_Step shows
	// is preserved by every merge) can be indexed and queried safely.
	maxTok := vfParam("tok", 1)
	d := vfFreeDesc("l", vfParam("ids", 3), maxTok, 0)
	vfAssume(vfInv(d))
	vfAssumeTimestampsBelow(d, 1<<31)
	za := vfChoice("za", 2) == 1
	r := vfMkRing(d, 2, za, time.Duration(1<<62))
	key := vfU32("key")
	_, gerr := r.Get(key, vfOps[vfChoice("op", 2)*3], nil, nil, nil) // Write or Reporting
	vfAssert(!vfErrIs(gerr, ErrInconsistentTokensInfo), "C05 lookups over a state satisfying the invariant never report inconsistent token information")
	if za {
		for _, id := range vfSortedIDs(d) {
			_, rerr := r.GetTokenRangesForInstance(id)
			vfAssert(!vfErrIs(rerr, ErrInconsistentTokensInfo), "C05 token ranges over a state satisfying the invariant never report inconsistent token information")
		}
	}
	vfCover("c05-lookups-done")
}

func init() { vfRegister("HarnessC05_Winner3", HarnessC05_Winner3) }

// HarnessC05_Winner3: three claimants (one symbolic token each, any of them may
// coincide, any non-left states) arriving in one descriptor; the replica that
// visits them in order x,y,z and a replica that visits them in any other order
// end with the same ownership, and the invariant holds.
func HarnessC05_Winner3() {
	es := []InstanceDesc{}
	for i := 0; i < 3; i++ {
		e := vfFreeEntry([]string{"x", "y", "z"}[i], vfIDs[i], 1)
		vfAssume(e.State != LEFT)
		es = append(es, e)
	}
	perms := [][]int{{0, 1, 2}, {0, 2, 1}, {1, 0, 2}, {1, 2, 0}, {2, 0, 1}, {2, 1, 0}}
	mk := func(p []int) *Desc {
		o := NewDesc()
		for _, i := range p {
			e := es[i]
			o.Ingesters[e.Id] = InstanceDesc{Id: e.Id, Addr: e.Addr, Zone: "z", State: e.State, Timestamp: e.Timestamp, Tokens: append([]uint32(nil), e.Tokens...), RegisteredTimestamp: 7}
		}
		return o
	}
	r1, r2 := NewDesc(), NewDesc()
	_, err1 := r1.mergeWithTime(mk(perms[0]), false, time.Unix(vfEpoch, 0))
	_, err2 := r2.mergeWithTime(mk(perms[1+vfChoice("order", 5)]), false, time.Unix(vfEpoch, 0))
	vfAssert(err1 == nil && err2 == nil, "C05 merges do not fail")
	vfAssert(vfSameDesc(r1, r2), "C05 colliding claims of three instances resolve to the same owner whatever the iteration order")
	vfAssert(vfInv(r1), "C05 invariant after resolving collisions")
	vfCover("c05-winner3-done")
}
