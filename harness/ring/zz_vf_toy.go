//go:build verif

package ring

func init() { vfRegister("HarnessToy_SearchToken", HarnessToy_SearchToken) }

// HarnessToy_SearchToken: searchToken returns the index of the first token
// strictly greater than key, wrapping to 0.
func HarnessToy_SearchToken() {
	n := 1 + vfChoice("n", 4)
	toks := make([]uint32, n)
	for i := range toks {
		toks[i] = vfU32("t")
		if i > 0 {
			vfAssume(toks[i-1] < toks[i])
		}
	}
	key := vfU32("key")
	got := searchToken(toks, key)
	vfObserve("got", got)
	want := 0
	for i := len(toks) - 1; i >= 0; i-- {
		if toks[i] > key {
			want = i
		}
	}
	vfAssert(got == want, "searchToken == first token strictly greater")
	vfCover("done")
}
