//go:build verif

package ring

import (
	"context"
	"math/rand"
	"time"

	"github.com/go-kit/log"
)

// C08 (basic lifecycler with its standard delegates): every ring write of the
// BasicLifecycler is a CAS closure applied to an arbitrary symbolic ring.

func init() {
	vfRegisterBubble("HarnessC08_BasicRegister", HarnessC08_BasicRegister)
	vfRegisterBubble("HarnessC08_BasicHeartbeat", HarnessC08_BasicHeartbeat)
	vfRegisterBubble("HarnessC08_BasicChange", HarnessC08_BasicChange)
}

func vfNewBasicLifecycler(store *vfKV, numTokens int, src rand.Source, forget time.Duration) *BasicLifecycler {
	cfg := BasicLifecyclerConfig{ID: vfOwnID, Addr: "addr-own", Zone: "z", HeartbeatPeriod: 5 * time.Second,
		HeartbeatTimeout: time.Minute, NumTokens: numTokens}
	if src != nil {
		cfg.RingTokenGenerator = &RandomTokenGenerator{r: rand.New(src)}
	}
	var delegate BasicLifecyclerDelegate = NewInstanceRegisterDelegate(JOINING, numTokens)
	delegate = NewLeaveOnStoppingDelegate(delegate, log.NewNopLogger())
	if forget > 0 {
		delegate = NewAutoForgetDelegate(forget, delegate, log.NewNopLogger())
	}
	l, err := NewBasicLifecycler(cfg, "r", "k", store, delegate, log.NewNopLogger(), nil)
	vfAssert(err == nil, "C08 basic lifecycler is created")
	return l
}

// HarnessC08_BasicRegister: registration on an arbitrary ring.
func HarnessC08_BasicRegister() {
	now := vfNowSym()
	numTokens := 1 + vfChoice("numtokens", 2)
	own := &vfOwnGen{present: vfChoice("own_present", 2) == 1}
	ownTok := 0
	if own.present {
		ownTok = vfChoice("own_ntok", 3)
	}
	in := vfArbRing(vfParam("foreign", 1), own, ownTok, now)
	store := &vfKV{val: vfCloneDesc(in)}
	l := vfNewBasicLifecycler(store, numTokens, &vfRandSrc{max: numTokens + 2}, 0)
	vfAssert(l.registerInstance(context.Background()) == nil, "C08 registration succeeds")
	out := store.val.(*Desc)
	vfAssert(vfForeignUntouched(in, out), "C08 registration edits only the lifecycler's own entry")
	me, ok := out.Ingesters[vfOwnID]
	vfAssert(ok, "C08 the instance is registered")
	vfAssert(me.State == JOINING, "C08 registers in the state chosen by the delegate")
	vfAssert(me.Timestamp == now, "C08 registration refreshes the heartbeat")
	if own.present {
		vfAssert(me.RegisteredTimestamp == own.reg, "C08 registration time is kept once set")
		vfAssert(me.Timestamp >= own.ts, "C08 heartbeat timestamp never goes backwards")
		// tokens inherited from the ring are kept as they are
		for _, t := range own.toks {
			found := false
			for _, u := range me.Tokens {
				found = vfOr(found, t == u)
			}
			vfAssert(found, "C08 tokens inherited from the ring are kept")
		}
	} else {
		vfAssert(me.RegisteredTimestamp == now, "C08 registration time of a fresh entry is now")
	}
	want := numTokens
	if ownTok > want {
		want = ownTok
	}
	vfAssert(len(me.Tokens) == want, "C08 holds the configured number of tokens after registering")
	for i := 1; i < len(me.Tokens); i++ {
		vfAssert(me.Tokens[i-1] < me.Tokens[i], "C08 tokens are sorted and distinct")
	}
	for id, f := range in.Ingesters {
		if id == vfOwnID {
			continue
		}
		for _, t := range me.Tokens {
			vfAssert(t != f.Tokens[0], "C08 no token was visible in the ring as another instance's token")
		}
	}
	vfCover("c08-basic-register-done")
}

// HarnessC08_BasicHeartbeat: heartbeat with the auto-forget delegate on an
// arbitrary ring, own entry present or lost.
func HarnessC08_BasicHeartbeat() {
	now := vfNowSym()
	forgetS := vfI64("forget_s")
	vfAssume(vfAnd(forgetS >= 1, forgetS <= 1<<24))
	own := &vfOwnGen{present: true}
	first := vfArbRingL(0, own, 1, now, false)
	store := &vfKV{val: vfCloneDesc(first)}
	l := vfNewBasicLifecycler(store, 1, nil, time.Duration(forgetS)*time.Second)
	vfAssert(l.registerInstance(context.Background()) == nil, "C08 registration succeeds")
	mine := store.val.(*Desc).Ingesters[vfOwnID]
	later := vfI64("later")
	vfAssume(vfAnd(later >= now, later <= now+(1<<20)))
	vfSetNow(later)
	// the store now holds an arbitrary ring: two foreign entries with arbitrary heartbeats
	in := NewDesc()
	ages := map[string]int64{}
	for i := 1; i <= 2; i++ {
		id := vfIDs[i]
		ts := vfI64("ts_" + id)
		vfAssume(vfAnd(ts >= later-(1<<25), ts <= later))
		ages[id] = later - ts
		// any state: only the age of the heartbeat decides about forgetting
		st := InstanceState(vfI32("st_" + id))
		vfAssume(vfAnd(st >= ACTIVE, st <= JOINING))
		in.Ingesters[id] = InstanceDesc{Id: id, Addr: "addr-" + id, Zone: "z", State: st, Timestamp: ts, RegisteredTimestamp: 7, Tokens: []uint32{uint32(1000 * i)}}
	}
	lost := vfChoice("entry_lost", 2) == 1
	if !lost {
		in.Ingesters[vfOwnID] = mine
	}
	store.val = vfCloneDesc(in)
	// optionally the lifecycler's own state change (run by the stopping delegate
	// in another goroutine) reaches the store first, a second later
	raced := !lost && vfChoice("own_write_first", 2) == 1
	if raced {
		store.before = func() {
			vfAdvance(time.Second)
			d := store.val.(*Desc)
			e := d.Ingesters[vfOwnID]
			e.State = LEAVING
			e.Timestamp = later + 1
			d.Ingesters[vfOwnID] = e
		}
	}
	l.heartbeat(context.Background())
	out := store.val.(*Desc)
	if raced {
		got := out.Ingesters[vfOwnID]
		vfAssert(got.Timestamp >= later+1, "C08 the heartbeat timestamp never goes backwards, also when the instance's own state change reached the store first")
		vfCover("c08-basic-heartbeat-raced")
		return
	}
	for i := 1; i <= 2; i++ {
		id := vfIDs[i]
		got, still := out.Ingesters[id]
		if ages[id] > forgetS {
			vfAssert(!still, "C08 auto-forget removes entries whose heartbeat is older than the forget period")
		} else {
			vfAssert(still, "C08 auto-forget removes exactly the entries older than the forget period")
			if still {
				vfAssert(vfSameInstance(got, in.Ingesters[id]), "C08 a heartbeat leaves other entries untouched")
			}
		}
	}
	me, ok := out.Ingesters[vfOwnID]
	vfAssert(ok, "C08 the own entry exists after a heartbeat")
	vfAssert(me.Timestamp == later && me.Timestamp >= mine.Timestamp, "C08 the heartbeat timestamp is refreshed and never goes backwards")
	vfAssert(me.State == mine.State && vfSameTokens(me.Tokens, mine.Tokens), "C08 state and tokens are re-published as remembered")
	if lost {
		vfAssert(me.RegisteredTimestamp == later, "C08 an entry lost by the store is re-registered with a fresh registration time")
		vfCover("c08-basic-heartbeat-lost")
	} else {
		vfAssert(me.RegisteredTimestamp == mine.RegisteredTimestamp, "C08 registration time is kept")
		vfCover("c08-basic-heartbeat-kept")
	}
}

// HarnessC08_BasicChange: state and read-only changes touch only the own entry.
func HarnessC08_BasicChange() {
	now := vfNowSym()
	own := &vfOwnGen{present: vfChoice("own_present", 2) == 1}
	in := vfArbRing(1, own, 1, now)
	store := &vfKV{val: vfCloneDesc(in)}
	l := vfNewBasicLifecycler(store, 1, &vfRandSrc{max: 3}, 0)
	vfAssert(l.registerInstance(context.Background()) == nil, "C08 registration succeeds")
	before := vfCloneDesc(store.val.(*Desc))
	mine := before.Ingesters[vfOwnID]
	later := vfI64("later")
	vfAssume(vfAnd(later >= now, later <= now+(1<<20)))
	vfSetNow(later)
	if vfChoice("what", 2) == 0 {
		to := InstanceState(vfI32("to"))
		vfAssume(vfAnd(to >= ACTIVE, to <= JOINING))
		vfAssert(l.changeState(context.Background(), to) == nil, "C08 state change succeeds")
		out := store.val.(*Desc)
		me := out.Ingesters[vfOwnID]
		vfAssert(me.State == to, "C08 the requested state is published")
		vfAssert(vfForeignUntouched(before, out), "C08 a state change edits only the own entry")
		vfAssert(me.Timestamp >= mine.Timestamp, "C08 heartbeat timestamp never goes backwards")
		vfAssert(me.RegisteredTimestamp == mine.RegisteredTimestamp && vfSameTokens(me.Tokens, mine.Tokens), "C08 registration time and tokens are kept")
		vfCover("c08-basic-change-state")
	} else {
		ro := vfBool("readonly")
		vfAssert(l.changeReadOnlyState(context.Background(), ro) == nil, "C08 read-only change succeeds")
		out := store.val.(*Desc)
		me := out.Ingesters[vfOwnID]
		vfAssert(me.ReadOnly == ro, "C08 the requested read-only status is published")
		if ro != mine.ReadOnly {
			vfAssert(me.ReadOnlyUpdatedTimestamp == later, "C08 a read-only toggle is stamped with now")
		} else {
			vfAssert(me.ReadOnlyUpdatedTimestamp == mine.ReadOnlyUpdatedTimestamp, "C08 an unchanged read-only status keeps its timestamp")
		}
		vfAssert(vfForeignUntouched(before, out), "C08 a read-only change edits only the own entry")
		vfAssert(me.State == mine.State && me.RegisteredTimestamp == mine.RegisteredTimestamp && vfSameTokens(me.Tokens, mine.Tokens), "C08 state, registration time and tokens are kept")
		vfCover("c08-basic-change-readonly")
	}
}
