//go:build verif

package ring

import "time"

// C04 - removed entries stay removed: tombstones block resurrection and are
// never shown. Delivery orders are reduced to induction over the real merge
// functions: each obligation is one merge step from an arbitrary symbolic state.

func init() {
	vfRegister("HarnessC04_RingStamp", HarnessC04_RingStamp)
	vfRegister("HarnessC04_RingNoResurrection", HarnessC04_RingNoResurrection)
	vfRegister("HarnessC04_RingRetention", HarnessC04_RingRetention)
	vfRegister("HarnessC04_PartStamp", HarnessC04_PartStamp)
	vfRegister("HarnessC04_PartNoResurrection", HarnessC04_PartNoResurrection)
	vfRegister("HarnessC04_PartRetention", HarnessC04_PartRetention)
}

func vfTs(name string) int64 {
	ts := vfI64(name)
	vfAssume(vfAnd(ts >= 1, ts <= vfEpoch+(1<<31)))
	return ts
}

// HarnessC04_RingStamp: a local update that lacks a live entry x turns x into a
// tombstone stamped with the removal second, without tokens, and reports it;
// a replica holding an older live version takes the tombstone over.
func HarnessC04_RingStamp() {
	n := vfParam("ids", 2)
	pre := vfArbOperand("p", n)
	in := vfArbOperand("i", n)
	vfAssumeConsistent(n, pre, in)
	now := vfTs("now")
	// clocks do not run ahead of the remover
	for i := 0; i < n; i++ {
		if g, ok := pre.gen[vfIDs[i]]; ok {
			vfAssume(g.ts <= now)
		}
	}
	st := vfCloneDesc(pre.d)
	chM, err := st.mergeWithTime(vfCloneDesc(in.d), true, time.Unix(now, 0))
	vfAssert(err == nil, "C04 local merge does not fail")
	var ch *Desc
	if chM != nil {
		ch = chM.(*Desc)
	}
	for i := 0; i < n; i++ {
		id := vfIDs[i]
		old, had := pre.d.Ingesters[id]
		_, given := in.d.Ingesters[id]
		if had && !given && old.State != LEFT {
			got := st.Ingesters[id]
			vfAssert(vfAnd(got.State == LEFT, got.Timestamp == now), "C04 removed entry becomes a tombstone stamped with the removal second")
			vfAssert(len(got.Tokens) == 0, "C04 tombstone has no tokens")
			vfAssert(ch != nil, "C04 removal is reported as a change")
			if ch != nil {
				c, ok := ch.Ingesters[id]
				vfAssert(ok && c.State == LEFT && c.Timestamp == now, "C04 tombstone is part of the forwarded change")
				// propagation: a replica with an older (or same-second) live version takes it over
				rts := vfTs("replica_ts")
				vfAssume(rts <= now)
				rep := NewDesc()
				rep.Ingesters[id] = InstanceDesc{Id: id, Addr: "addr-" + id, Zone: "z", State: ACTIVE, Timestamp: rts, Tokens: []uint32{old.Tokens[0]}, RegisteredTimestamp: 7}
				_, err := rep.mergeWithTime(vfCloneDesc(ch), false, time.Unix(now, 0))
				vfAssert(err == nil, "C04 gossip merge does not fail")
				vfAssert(vfAnd(rep.Ingesters[id].State == LEFT, rep.Ingesters[id].Timestamp == now), "C04 replica with an older live version adopts the tombstone")
			}
			vfCover("c04-ring-stamped")
		}
	}
}

// HarnessC04_RingNoResurrection: with tombstone x@T in the state, no incoming
// message whose x is not newer than T (any state, same second included) makes x
// reappear, in gossip and in local-CAS mode.
func HarnessC04_RingNoResurrection() {
	n := vfParam("ids", 2)
	pre := vfArbOperand("p", n)
	in := vfArbOperand("i", n)
	vfAssumeConsistent(n, pre, in)
	localCAS := vfChoice("localcas", 2) == 1
	now := vfTs("now")
	tomb, ok := pre.gen[vfIDs[0]]
	if !ok {
		return
	}
	vfAssume(tomb.st == LEFT)
	vfAssume(tomb.ts <= now)
	if g, ok := in.gen[vfIDs[0]]; ok {
		vfAssume(g.ts <= tomb.ts) // produced before (or in the second of) the removal
	}
	st := vfCloneDesc(pre.d)
	chM, err := st.mergeWithTime(vfCloneDesc(in.d), localCAS, time.Unix(now, 0))
	vfAssert(err == nil, "C04 merge does not fail")
	got, present := st.Ingesters[vfIDs[0]]
	vfAssert(present, "C04 tombstone is retained by merges")
	vfAssert(vfAnd(got.State == LEFT, got.Timestamp == tomb.ts), "C04 a message not newer than the tombstone cannot resurrect the entry")
	vfAssert(len(got.Tokens) == 0, "C04 tombstone keeps no tokens")
	if chM != nil {
		_, inCh := chM.(*Desc).Ingesters[vfIDs[0]]
		vfAssert(!inCh, "C04 an ignored stale message is not forwarded")
	}
	vfCover("c04-ring-noresurrect")
}

// HarnessC04_RingRetention: RemoveTombstones(limit) removes exactly tombstones
// older than the limit (all of them for the zero time), never a live entry.
func HarnessC04_RingRetention() {
	n := vfParam("ids", 2)
	pre := vfArbOperand("p", n)
	vfAssumeConsistent(n, pre)
	zero := vfChoice("zero_limit", 2) == 1
	lim := vfTs("limit")
	limit := time.Unix(lim, 0)
	if zero {
		limit = time.Time{}
	}
	st := vfCloneDesc(pre.d)
	total, removed := st.RemoveTombstones(limit)
	wantTotal, wantRemoved := 0, 0
	for i := 0; i < n; i++ {
		id := vfIDs[i]
		old, had := pre.d.Ingesters[id]
		if !had {
			continue
		}
		got, still := st.Ingesters[id]
		drop := vfAnd(old.State == LEFT, vfOr(zero, old.Timestamp < lim))
		if drop {
			vfAssert(!still, "C04 tombstone older than the retention limit is discarded")
			wantRemoved++
		} else {
			vfAssert(still, "C04 live entries and young tombstones are kept")
			if still {
				vfAssert(vfSameInstance(got, old), "C04 kept entries are untouched")
			}
			if old.State == LEFT {
				wantTotal++
			}
		}
	}
	vfObserve("total", total)
	vfObserve("removed", removed)
	vfAssert(total == wantTotal && removed == wantRemoved, "C04 RemoveTombstones counts are exact")
	vfCover("c04-ring-retention")
}

// ---- partition ring ----

func HarnessC04_PartStamp() {
	np, no := vfParam("parts", 1), vfParam("owners", 1)
	pre := vfArbPOperand("p", np, no)
	in := vfArbPOperand("i", np, no)
	vfAssumePConsistent(np, no, pre, in)
	now := vfTs("now")
	for _, g := range pre.pg {
		vfAssume(g.ts <= now)
	}
	for _, g := range pre.og {
		vfAssume(g.ts <= now)
	}
	st := vfClonePRD(pre.d)
	chM, err := st.mergeWithTime(vfClonePRD(in.d), true, time.Unix(now, 0))
	vfAssert(err == nil, "C04 local partition merge does not fail")
	var ch *PartitionRingDesc
	if chM != nil {
		ch = chM.(*PartitionRingDesc)
	}
	for p := int32(0); int(p) < np; p++ {
		old, had := pre.d.Partitions[p]
		_, given := in.d.Partitions[p]
		if had && !given && old.State != PartitionDeleted {
			got := st.Partitions[p]
			vfAssert(vfAnd(got.State == PartitionDeleted, got.StateTimestamp == now), "C04 removed partition becomes a tombstone stamped with the removal second")
			vfAssert(ch != nil, "C04 partition removal is reported")
			if ch != nil {
				c, ok := ch.Partitions[p]
				vfAssert(ok && c.State == PartitionDeleted && c.StateTimestamp == now, "C04 partition tombstone is forwarded")
				rts := vfTs("replica_ts")
				vfAssume(rts <= now)
				rep := NewPartitionRingDesc()
				rep.Partitions[p] = PartitionDesc{Id: p, Tokens: old.Tokens, State: PartitionActive, StateTimestamp: rts}
				_, err := rep.mergeWithTime(vfClonePRD(ch), false, time.Unix(now, 0))
				vfAssert(err == nil, "C04 gossip partition merge does not fail")
				vfAssert(vfAnd(rep.Partitions[p].State == PartitionDeleted, rep.Partitions[p].StateTimestamp == now), "C04 replica adopts the partition tombstone")
			}
			vfCover("c04-part-stamped")
		}
	}
	for o := 0; o < no; o++ {
		id := vfOwnerIDs[o]
		old, had := pre.d.Owners[id]
		_, given := in.d.Owners[id]
		if had && !given && old.State != OwnerDeleted {
			got := st.Owners[id]
			vfAssert(vfAnd(got.State == OwnerDeleted, got.UpdatedTimestamp == now), "C04 removed owner becomes a tombstone stamped with the removal second")
			vfAssert(ch != nil, "C04 owner removal is reported")
			if ch != nil {
				c, ok := ch.Owners[id]
				vfAssert(ok && c.State == OwnerDeleted && c.UpdatedTimestamp == now, "C04 owner tombstone is forwarded")
			}
			vfCover("c04-owner-stamped")
		}
	}
}

func HarnessC04_PartNoResurrection() {
	np, no := 1, 1
	pre := vfArbPOperand("p", np, no)
	in := vfArbPOperand("i", np, no)
	vfAssumePConsistent(np, no, pre, in)
	localCAS := vfChoice("localcas", 2) == 1
	now := vfTs("now")
	which := vfChoice("which", 2)
	st := vfClonePRD(pre.d)
	if which == 0 {
		tomb, ok := pre.pg[0]
		if !ok {
			return
		}
		vfAssume(vfAnd(tomb.st == PartitionDeleted, tomb.ts <= now))
		if g, ok := in.pg[0]; ok {
			vfAssume(g.ts <= tomb.ts)
		}
		_, err := st.mergeWithTime(vfClonePRD(in.d), localCAS, time.Unix(now, 0))
		vfAssert(err == nil, "C04 partition merge does not fail")
		got, present := st.Partitions[0]
		vfAssert(present, "C04 partition tombstone is retained by merges")
		vfAssert(vfAnd(got.State == PartitionDeleted, got.StateTimestamp == tomb.ts), "C04 a message not newer than the partition tombstone cannot resurrect it")
		vfCover("c04-part-noresurrect")
	} else {
		tomb, ok := pre.og[vfOwnerIDs[0]]
		if !ok {
			return
		}
		vfAssume(vfAnd(tomb.st == OwnerDeleted, tomb.ts <= now))
		if g, ok := in.og[vfOwnerIDs[0]]; ok {
			vfAssume(g.ts <= tomb.ts)
		}
		_, err := st.mergeWithTime(vfClonePRD(in.d), localCAS, time.Unix(now, 0))
		vfAssert(err == nil, "C04 partition merge does not fail")
		got, present := st.Owners[vfOwnerIDs[0]]
		vfAssert(present, "C04 owner tombstone is retained by merges")
		vfAssert(vfAnd(got.State == OwnerDeleted, got.UpdatedTimestamp == tomb.ts), "C04 a message not newer than the owner tombstone cannot resurrect it")
		vfCover("c04-owner-noresurrect")
	}
}

func HarnessC04_PartRetention() {
	np, no := vfParam("parts", 2), vfParam("owners", 1)
	pre := vfArbPOperand("p", np, no)
	vfAssumePConsistent(np, no, pre)
	zero := vfChoice("zero_limit", 2) == 1
	lim := vfTs("limit")
	limit := time.Unix(lim, 0)
	if zero {
		limit = time.Time{}
	}
	st := vfClonePRD(pre.d)
	total, removed := st.RemoveTombstones(limit)
	wantTotal, wantRemoved := 0, 0
	for p := int32(0); int(p) < np; p++ {
		old, had := pre.d.Partitions[p]
		if !had {
			continue
		}
		got, still := st.Partitions[p]
		if vfAnd(old.State == PartitionDeleted, vfOr(zero, old.StateTimestamp < lim)) {
			vfAssert(!still, "C04 partition tombstone older than the limit is discarded")
			wantRemoved++
		} else {
			vfAssert(still && vfSamePartition(got, old), "C04 live partitions and young tombstones are kept untouched")
			if old.State == PartitionDeleted {
				wantTotal++
			}
		}
	}
	for o := 0; o < no; o++ {
		old, had := pre.d.Owners[vfOwnerIDs[o]]
		if !had {
			continue
		}
		got, still := st.Owners[vfOwnerIDs[o]]
		if vfAnd(old.State == OwnerDeleted, vfOr(zero, old.UpdatedTimestamp < lim)) {
			vfAssert(!still, "C04 owner tombstone older than the limit is discarded")
			wantRemoved++
		} else {
			vfAssert(still && vfSameOwner(got, old), "C04 live owners and young tombstones are kept untouched")
			if old.State == OwnerDeleted {
				wantTotal++
			}
		}
	}
	vfAssert(total == wantTotal && removed == wantRemoved, "C04 partition RemoveTombstones counts are exact")
	vfCover("c04-part-retention")
}

// ---- adoption: every replica that learns of a removal stops showing the entry ----

func init() {
	vfRegister("HarnessC04_RingAdoption", HarnessC04_RingAdoption)
	vfRegister("HarnessC04_PartAdoption", HarnessC04_PartAdoption)
}

// HarnessC04_RingAdoption: a gossip message carrying tombstone x@T merged into
// ANY state (x unknown, older, same second, newer) leaves x at least as new as
// the tombstone: never a live entry that is not strictly newer than T. A replica
// that did not hold the tombstone before stores it and forwards it.
func HarnessC04_RingAdoption() {
	n := vfParam("ids", 2)
	pre := vfArbOperand("p", n)
	in := vfArbOperand("i", n)
	vfAssumeConsistent(n, pre, in)
	now := vfTs("now")
	tomb, ok := in.gen[vfIDs[0]]
	if !ok {
		return
	}
	vfAssume(tomb.st == LEFT)
	old, had := pre.gen[vfIDs[0]]
	if had && vfChoice("tombstone_carries_tokens", 2) == 1 {
		// a peer's tombstone that still lists the tokens the replica knows (older
		// writers, or a removal stamped over a copy of the live entry)
		e := in.d.Ingesters[vfIDs[0]]
		e.Tokens = append([]uint32(nil), pre.d.Ingesters[vfIDs[0]].Tokens...)
		in.d.Ingesters[vfIDs[0]] = e
	}
	st := vfCloneDesc(pre.d)
	chM, err := st.mergeWithTime(vfCloneDesc(in.d), false, time.Unix(now, 0))
	vfAssert(err == nil, "C04 merge does not fail")
	got, present := st.Ingesters[vfIDs[0]]
	vfAssert(present, "C04 a replica that learns of a removal keeps the tombstone (also for an entry it never saw)")
	if !present {
		return
	}
	vfAssert(vfOr(got.Timestamp > tomb.ts, vfAnd(got.Timestamp == tomb.ts, got.State == LEFT)), "C04 after learning of a removal the entry is a tombstone unless a strictly newer version is known")
	adopted := !had
	if had {
		adopted = vfOr(old.ts < tomb.ts, vfAnd(old.ts == tomb.ts, old.st != LEFT))
	}
	if adopted {
		vfAssert(vfAnd(got.State == LEFT, got.Timestamp == tomb.ts), "C04 a newer (or same-second) tombstone is adopted")
		vfAssert(len(got.Tokens) == 0, "C04 tombstone keeps no tokens")
		vfAssert(chM != nil, "C04 an adopted tombstone is forwarded to peers")
		if chM != nil {
			c, inCh := chM.(*Desc).Ingesters[vfIDs[0]]
			vfAssert(inCh && c.State == LEFT && c.Timestamp == tomb.ts, "C04 an adopted tombstone is forwarded to peers")
			vfAssert(len(c.Tokens) == 0, "C04 a forwarded tombstone carries no tokens")
		}
		// readers of this replica no longer see the entry
		view := vfCloneDesc(st)
		view.RemoveTombstones(time.Time{})
		_, shown := view.Ingesters[vfIDs[0]]
		vfAssert(!shown, "C04 readers never see a tombstone")
		vfCover("c04-ring-adopted")
	}
}

func HarnessC04_PartAdoption() {
	np, no := 1, 1
	pre := vfArbPOperand("p", np, no)
	in := vfArbPOperand("i", np, no)
	vfAssumePConsistent(np, no, pre, in)
	now := vfTs("now")
	st := vfClonePRD(pre.d)
	if vfChoice("which", 2) == 0 {
		tomb, ok := in.pg[0]
		if !ok {
			return
		}
		vfAssume(tomb.st == PartitionDeleted)
		old, had := pre.pg[0]
		chM, err := st.mergeWithTime(vfClonePRD(in.d), false, time.Unix(now, 0))
		vfAssert(err == nil, "C04 partition merge does not fail")
		got, present := st.Partitions[0]
		vfAssert(present, "C04 a replica that learns of a partition removal keeps the tombstone")
		if !present {
			return
		}
		vfAssert(vfOr(got.StateTimestamp > tomb.ts, vfAnd(got.StateTimestamp == tomb.ts, got.State == PartitionDeleted)), "C04 after learning of a partition removal the partition is a tombstone unless a strictly newer version is known")
		adopted := !had
		if had {
			adopted = vfOr(old.ts < tomb.ts, vfAnd(old.ts == tomb.ts, old.st != PartitionDeleted))
		}
		if adopted {
			vfAssert(vfAnd(got.State == PartitionDeleted, got.StateTimestamp == tomb.ts), "C04 a newer (or same-second) partition tombstone is adopted")
			vfAssert(chM != nil, "C04 an adopted partition tombstone is forwarded to peers")
			if chM != nil {
				c, inCh := chM.(*PartitionRingDesc).Partitions[0]
				vfAssert(inCh && c.State == PartitionDeleted && c.StateTimestamp == tomb.ts, "C04 an adopted partition tombstone is forwarded to peers")
			}
			vfCover("c04-part-adopted")
		}
	} else {
		id := vfOwnerIDs[0]
		tomb, ok := in.og[id]
		if !ok {
			return
		}
		vfAssume(tomb.st == OwnerDeleted)
		old, had := pre.og[id]
		chM, err := st.mergeWithTime(vfClonePRD(in.d), false, time.Unix(now, 0))
		vfAssert(err == nil, "C04 partition merge does not fail")
		got, present := st.Owners[id]
		vfAssert(present, "C04 a replica that learns of an owner removal keeps the tombstone")
		if !present {
			return
		}
		vfAssert(vfOr(got.UpdatedTimestamp > tomb.ts, vfAnd(got.UpdatedTimestamp == tomb.ts, got.State == OwnerDeleted)), "C04 after learning of an owner removal the owner is a tombstone unless a strictly newer version is known")
		adopted := !had
		if had {
			adopted = vfOr(old.ts < tomb.ts, vfAnd(old.ts == tomb.ts, old.st != OwnerDeleted))
		}
		if adopted {
			vfAssert(vfAnd(got.State == OwnerDeleted, got.UpdatedTimestamp == tomb.ts), "C04 a newer (or same-second) owner tombstone is adopted")
			vfAssert(chM != nil, "C04 an adopted owner tombstone is forwarded to peers")
			if chM != nil {
				c, inCh := chM.(*PartitionRingDesc).Owners[id]
				vfAssert(inCh && c.State == OwnerDeleted && c.UpdatedTimestamp == tomb.ts, "C04 an adopted owner tombstone is forwarded to peers")
			}
			vfCover("c04-owner-adopted")
		}
	}
}
