//go:build verif

package ring

import (
	"context"
	"sync"
)

// C11 (multi-set variant) - DoMultiUntilQuorumWithoutSuccessfulContextCancellation
// over 2..3 replication sets: success only when every set reached its quorum,
// the results are exactly those of the successful calls used, the first set to
// fail fails the whole read and cancels everything, unused successes go to the
// cleanup callback once, and the contexts of used calls stay alive until their
// own cancel function has been called.

func init() { vfRegisterBubble("HarnessC11_Multi", HarnessC11_Multi) }

type vfMultiCall struct {
	set, idx int
	ctx      context.Context
	cancel   context.CancelCauseFunc
	release  chan int
	done     bool
	outcome  int
}

func HarnessC11_Multi() {
	nsets := 2 + vfChoice("sets", vfParam("sets", 1))
	per := vfParam("inst", 2)
	sets := make([]ReplicationSet, nsets)
	tol := make([]int, nsets)
	size := make([]int, nsets)
	id := 0
	owner := map[string][2]int{}
	for s := range sets {
		n := 1 + vfChoice("n", per)
		size[s] = n
		insts := make([]InstanceDesc, n)
		for i := range insts {
			insts[i] = InstanceDesc{Id: vfIDs[id], Addr: vfIDs[id], State: ACTIVE}
			owner[vfIDs[id]] = [2]int{s, i}
			id++
		}
		t := vfInt("tolerance")
		vfAssume(vfAnd(t >= 0, t < n))
		tol[s] = t
		sets[s] = ReplicationSet{Instances: insts, MaxErrors: t}
	}
	cfg := DoUntilQuorumConfig{MinimizeRequests: vfChoice("minimize", 2) == 1}

	var mu sync.Mutex
	var calls []*vfMultiCall
	cleaned := map[int]int{}
	f := func(ctx context.Context, d *InstanceDesc, cancel context.CancelCauseFunc) (int, error) {
		o := owner[d.Id]
		c := &vfMultiCall{set: o[0], idx: o[1], ctx: ctx, cancel: cancel, release: make(chan int)}
		mu.Lock()
		calls = append(calls, c)
		mu.Unlock()
		out := <-c.release
		mu.Lock()
		c.done, c.outcome = true, out
		mu.Unlock()
		if out != 0 {
			return 0, vfErrReplica
		}
		return 100*o[0] + o[1] + 1, nil
	}
	cleanup := func(v int) {
		mu.Lock()
		cleaned[v]++
		mu.Unlock()
	}
	ctx, cancelAll := context.WithCancelCause(context.Background())
	returned := false
	var results []int
	var rerr error
	go func() {
		res, err := DoMultiUntilQuorumWithoutSuccessfulContextCancellation(ctx, sets, cfg, f, cleanup)
		mu.Lock()
		returned, results, rerr = true, res, err
		mu.Unlock()
	}()
	snapshot := func() (bool, []int, error, []*vfMultiCall) {
		mu.Lock()
		defer mu.Unlock()
		return returned, append([]int(nil), results...), rerr, append([]*vfMultiCall(nil), calls...)
	}
	fails := make([]int, nsets)
	oks := make([]int, nsets)
	cancelled := false
	check := func() {
		ret, res, err, cs := snapshot()
		seen := map[int]bool{}
		for _, c := range cs {
			k := 100*c.set + c.idx
			vfAssert(!seen[k], "C11 multi: each instance is called at most once")
			seen[k] = true
		}
		mustFail := false
		allQuorum := true
		for s := 0; s < nsets; s++ {
			mustFail = vfOr(mustFail, fails[s] > tol[s])
			allQuorum = vfAnd(allQuorum, oks[s] >= size[s]-tol[s])
		}
		if mustFail {
			vfAssert(ret, "C11 multi: an error is returned once one set exceeds its tolerated failures")
			if ret {
				vfAssert(err != nil, "C11 multi: a set without quorum makes the read fail")
			}
		}
		if ret && err == nil {
			vfAssert(allQuorum, "C11 multi: success only once every set has reached its quorum")
			cnt := make([]int, nsets)
			used := map[int]bool{}
			for _, v := range res {
				vfAssert(!used[v], "C11 multi: returned results are results of distinct calls")
				used[v] = true
				okCall := false
				for _, c := range cs {
					if 100*c.set+c.idx+1 == v && c.done && c.outcome == 0 {
						okCall = true
						cnt[c.set]++
					}
				}
				vfAssert(okCall, "C11 multi: results are returned only from calls that succeeded")
			}
			for s := 0; s < nsets; s++ {
				vfAssert(cnt[s] == size[s]-tol[s], "C11 multi: each set contributes results from all but its tolerated number of instances")
			}
		}
		if ret && err != nil && !cancelled {
			vfAssert(mustFail, "C11 multi: an error is returned only when a set exceeds its tolerated failures or the caller's context ends")
		}
	}
	vfQuiesce()
	check()
	total := 0
	for s := range size {
		total += size[s]
	}
	for step := 0; step < 2*total+2; step++ {
		_, _, _, cs := snapshot()
		var pending []*vfMultiCall
		for _, c := range cs {
			if !c.done {
				pending = append(pending, c)
			}
		}
		if len(pending) == 0 {
			break
		}
		nact := len(pending)
		if !cancelled {
			nact++
		}
		a := vfChoice("action", nact)
		if a < len(pending) {
			c := pending[a]
			out := vfChoice("outcome", 2)
			if out == 0 {
				oks[c.set]++
			} else {
				fails[c.set]++
			}
			c.release <- out
			// optionally a call of another set completes at the same moment, so
			// that one set's result and the failure of another set race
			if vfParam("pair", 1) == 1 && vfChoice("pair", 2) == 1 {
				var others []*vfMultiCall
				for _, o := range pending {
					if o.set != c.set {
						others = append(others, o)
					}
				}
				if len(others) > 0 {
					c2 := others[vfChoice("second", len(others))]
					out2 := vfChoice("outcome", 2)
					if out2 == 0 {
						oks[c2.set]++
					} else {
						fails[c2.set]++
					}
					c2.release <- out2
				}
			}
		} else {
			cancelAll(vfErrCancel)
			cancelled = true
		}
		vfQuiesce()
		if cancelled {
			ret, _, _, _ := snapshot()
			vfAssert(ret, "C11 multi: the read returns once the caller's context has ended")
		}
		check()
	}
	vfQuiesce()
	ret, res, err, cs := snapshot()
	allDone := true
	for _, c := range cs {
		allDone = allDone && c.done
	}
	if allDone {
		vfAssert(ret, "C11 multi: the read has returned once every call has completed")
	}
	if ret {
		used := map[int]bool{}
		for _, v := range res {
			used[v] = true
		}
		mu.Lock()
		var usedCalls []*vfMultiCall
		for _, c := range cs {
			v := 100*c.set + c.idx + 1
			if c.done && c.outcome == 0 {
				if used[v] {
					vfAssert(cleaned[v] == 0, "C11 multi: a returned result is not handed to the cleanup callback")
					usedCalls = append(usedCalls, c)
				} else {
					vfAssert(cleaned[v] == 1, "C11 multi: every successful result that is not returned is handed to the cleanup callback exactly once")
				}
			}
			if !used[v] || !c.done {
				vfAssert(c.ctx.Err() != nil, "C11 multi: the context of every call whose result is not used is cancelled")
			}
		}
		mu.Unlock()
		if err == nil && !cancelled {
			// without successful context cancellation: used calls keep a live
			// context until each of them has called its cancel function
			for _, c := range usedCalls {
				vfAssert(c.ctx.Err() == nil, "C11 multi: the context of a used call stays alive until its cancel function is called")
			}
			for _, c := range usedCalls {
				c.cancel(vfErrCancel)
			}
			for _, c := range usedCalls {
				vfAssert(c.ctx.Err() != nil, "C11 multi: calling the cancel function ends the call's context")
			}
			vfCover("c11-multi-success")
		}
	}
	if !ret {
		cancelAll(vfErrCancel)
		vfQuiesce()
	}
	cancelAll(vfErrCancel)
	vfQuiesce()
	vfCover("c11-multi-done")
}
