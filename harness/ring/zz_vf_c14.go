//go:build verif

package ring

import "time"

// C14 - reported token ranges coincide exactly with key ownership.

func init() {
	vfRegisterBubble("HarnessC14_InstanceRanges", HarnessC14_InstanceRanges)
	vfRegister("HarnessC14_PartitionRanges", HarnessC14_PartitionRanges)
}

// HarnessC14_InstanceRanges: zone-aware ring with as many zones as replicas,
// all instances ACTIVE and healthy. For every instance i and key k:
// ranges(i).IncludesKey(k) <=> i in Get(k, WriteNoExtend); ranges sorted, even.
func HarnessC14_InstanceRanges() {
	maxInst := vfParam("inst", 3)
	maxTok := vfParam("tok", 2)
	// zone layout: 2 zones (RF=2); zone a has na instances, zone b has nb.
	type layout struct{ na, nb int }
	var layouts []layout
	for na := 1; na <= maxInst-1; na++ {
		for nb := 1; nb <= na && na+nb <= maxInst; nb++ {
			layouts = append(layouts, layout{na, nb})
		}
	}
	lay := layouts[vfChoice("layout", len(layouts))]
	d := NewDesc()
	n := lay.na + lay.nb
	for i := 0; i < n; i++ {
		zone := "a"
		if i >= lay.na {
			zone = "b"
		}
		nt := 1 + vfChoice("ntok", maxTok)
		d.Ingesters[vfIDs[i]] = InstanceDesc{Id: vfIDs[i], Addr: vfIDs[i], Zone: zone, State: ACTIVE,
			Timestamp: vfEpoch, RegisteredTimestamp: vfEpoch - 1000, Tokens: vfSymTokens("tok_"+vfIDs[i], nt)}
	}
	vfAssumeDistinctTokens(d)
	r := vfMkRing(d, 2, true, time.Minute)
	key := vfU32("key")

	rs, err := r.Get(key, WriteNoExtend, nil, nil, nil)
	vfAssert(err == nil, "C14 lookup succeeds on an all-active healthy ring")
	if err != nil {
		return
	}
	// one instance per path: the per-instance equivalence for every instance
	// implies that exactly one instance of each zone covers the key (the
	// lookup returns one instance per zone).
	{
		i := vfChoice("inst", n)
		id := vfIDs[i]
		ranges, err := r.GetTokenRangesForInstance(id)
		vfAssert(err == nil, "C14 token ranges computed")
		if err != nil {
			return
		}
		vfAssert(len(ranges)%2 == 0, "C14 ranges come in pairs")
		for j := 1; j < len(ranges); j++ {
			vfAssert(ranges[j-1] <= ranges[j], "C14 ranges sorted")
		}
		inc := ranges.IncludesKey(key)
		own := vfHasID(rs, id)
		vfObserve("inc_"+id, inc)
		vfObserve("own_"+id, own)
		vfAssert(inc == own, "C14 instance ranges include key <=> lookup assigns key to instance")
	}
	na, nb := 0, 0
	for i := range rs.Instances {
		if rs.Instances[i].Zone == "a" {
			na++
		} else {
			nb++
		}
	}
	vfAssert(na == 1 && nb == 1, "C14 lookup assigns the key to exactly one instance per zone")
	vfCover("c14-instance-done")
}

// HarnessC14_PartitionRanges: all partitions active;
// ranges(p).IncludesKey(k) <=> ActivePartitionForKey(k) == p.
func HarnessC14_PartitionRanges() {
	maxP := vfParam("parts", 3)
	maxTok := vfParam("tok", 2)
	np := 1 + vfChoice("nparts", maxP)
	desc := NewPartitionRingDesc()
	var all [][]uint32
	for p := 0; p < np; p++ {
		nt := 1 + vfChoice("ntok", maxTok)
		toks := vfSymTokens("ptok", nt)
		all = append(all, toks)
		desc.Partitions[int32(p)] = PartitionDesc{Id: int32(p), Tokens: toks, State: PartitionActive, StateTimestamp: vfEpoch}
	}
	for a := 0; a < len(all); a++ {
		for b := a + 1; b < len(all); b++ {
			for _, x := range all[a] {
				for _, y := range all[b] {
					vfAssume(x != y)
				}
			}
		}
	}
	pr, err := NewPartitionRing(*desc)
	vfAssert(err == nil, "C14 partition ring builds")
	if err != nil {
		return
	}
	key := vfU32("key")
	owner, err := pr.ActivePartitionForKey(key)
	vfAssert(err == nil, "C14 an active partition is found")
	if err != nil {
		return
	}
	vfObserve("owner", owner)
	{
		p := vfChoice("part", np)
		ranges, err := pr.GetTokenRangesForPartition(int32(p))
		vfAssert(err == nil, "C14 partition ranges computed")
		if err != nil {
			return
		}
		vfAssert(len(ranges)%2 == 0, "C14 partition ranges come in pairs")
		for j := 1; j < len(ranges); j++ {
			vfAssert(ranges[j-1] <= ranges[j], "C14 partition ranges sorted")
		}
		inc := ranges.IncludesKey(key)
		vfObserve("inc", inc)
		vfAssert(inc == (owner == int32(p)), "C14 partition ranges include key <=> key routes to partition")
	}
	vfCover("c14-partition-done")
}
