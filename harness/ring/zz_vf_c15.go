//go:build verif

package ring

import (
	"context"
	"sort"
	"time"

	"github.com/go-kit/log"
)

// C15 - keys route to the next active partition; partition states follow legal
// edges; automatic promotion and deletion follow the documented conditions.

func init() {
	vfRegister("HarnessC15_Routing", HarnessC15_Routing)
	vfRegister("HarnessC15_KeysByPartition", HarnessC15_KeysByPartition)
	vfRegisterBubble("HarnessC15_Transitions", HarnessC15_Transitions)
	vfRegister("HarnessC15_ReconcileOwned", HarnessC15_ReconcileOwned)
	vfRegister("HarnessC15_ReconcileOther", HarnessC15_ReconcileOther)
}

// vfKV is a sequential in-memory kv.Client for harnesses: CAS applies the
// callback to the stored value and records what it wrote.
type vfKV struct {
	val     interface{}
	writes  int
	lastOut interface{}
	lastErr error
	calls   int
	before  func() // runs when a CAS reaches the store, before its callback (another writer getting in first)
}

func (k *vfKV) List(ctx context.Context, prefix string) ([]string, error) { return nil, nil }
func (k *vfKV) Get(ctx context.Context, key string) (interface{}, error)  { return k.val, nil }
func (k *vfKV) Delete(ctx context.Context, key string) error              { k.val = nil; return nil }
func (k *vfKV) CAS(ctx context.Context, key string, f func(in interface{}) (out interface{}, retry bool, err error)) error {
	k.calls++
	if k.before != nil {
		b := k.before
		k.before = nil
		b()
	}
	out, _, err := f(k.val)
	k.lastOut, k.lastErr = out, err
	if err != nil {
		return err
	}
	if out != nil {
		k.val = out
		k.writes++
	}
	return nil
}
func (k *vfKV) WatchKey(ctx context.Context, key string, f func(interface{}) bool)            {}
func (k *vfKV) WatchPrefix(ctx context.Context, prefix string, f func(string, interface{}) bool) {}

func vfPartState(name string) PartitionState {
	st := PartitionState(vfI32(name))
	vfAssume(vfAnd(st >= PartitionPending, st <= PartitionInactive))
	return st
}

// vfSymPartitions builds np partitions with symbolic tokens and states.
func vfSymPartitions(np, maxTok int) *PartitionRingDesc {
	desc := NewPartitionRingDesc()
	var all [][]uint32
	for p := 0; p < np; p++ {
		nt := 1 + vfChoice("ntok", maxTok)
		toks := vfSymTokens("ptok", nt)
		all = append(all, toks)
		desc.Partitions[int32(p)] = PartitionDesc{Id: int32(p), Tokens: toks, State: vfPartState("pstate"), StateTimestamp: vfEpoch}
	}
	for a := 0; a < len(all); a++ {
		for b := a + 1; b < len(all); b++ {
			for _, x := range all[a] {
				for _, y := range all[b] {
					vfAssume(x != y)
				}
			}
		}
	}
	return desc
}

type specPTok struct {
	tok uint32
	pid int32
}

// specRoute: owner of the first token strictly after the key whose partition
// is active, wrapping; ok=false iff no partition is active.
func specRoute(desc *PartitionRingDesc, key uint32) (int32, bool) {
	var toks []specPTok
	for pid := int32(0); int(pid) < len(desc.Partitions); pid++ {
		for _, t := range desc.Partitions[pid].Tokens {
			toks = append(toks, specPTok{t, pid})
		}
	}
	sort.Slice(toks, func(i, j int) bool { return toks[i].tok < toks[j].tok })
	start := 0
	for start < len(toks) && toks[start].tok <= key {
		start++
	}
	for n := 0; n < len(toks); n++ {
		pt := toks[(start+n)%len(toks)]
		if desc.Partitions[pt.pid].State == PartitionActive {
			return pt.pid, true
		}
	}
	return 0, false
}

func HarnessC15_Routing() {
	np := 1 + vfChoice("nparts", vfParam("parts", 3))
	desc := vfSymPartitions(np, vfParam("tok", 2))
	pr, err := NewPartitionRing(*desc)
	vfAssert(err == nil, "C15 partition ring builds")
	if err != nil {
		return
	}
	key := vfU32("key")
	got, err := pr.ActivePartitionForKey(key)
	want, ok := specRoute(desc, key)
	vfObserve("got", got)
	vfObserve("err", err != nil)
	if !ok {
		vfAssert(err == ErrNoActivePartitionFound, "C15 error exactly when no partition is active")
		vfCover("c15-route-none")
		return
	}
	vfAssert(err == nil, "C15 no error while some partition is active")
	vfAssert(got == want, "C15 key routes to the active partition owning the first token strictly after it")
	vfCover("c15-route-ok")
}

func HarnessC15_KeysByPartition() {
	np := 1 + vfChoice("nparts", vfParam("parts", 2))
	desc := vfSymPartitions(np, vfParam("tok", 1))
	pr, err := NewPartitionRing(*desc)
	if err != nil {
		return
	}
	nk := vfChoice("nkeys", vfParam("keys", 2)+1)
	keys := make([]uint32, nk)
	for i := range keys {
		keys[i] = vfU32("key")
	}
	br := NewActivePartitionBatchRing(pr)
	groups, err := br.GetKeysByPartition(context.Background(), keys)
	anyActive := false
	for pid := int32(0); int(pid) < np; pid++ {
		if desc.Partitions[pid].State == PartitionActive {
			anyActive = true
		}
	}
	if !anyActive {
		vfAssert(err == ErrNoActivePartitionFound, "C15 grouping fails exactly when no partition is active")
		vfCover("c15-group-none")
		return
	}
	vfAssert(err == nil, "C15 grouping succeeds while some partition is active")
	if err != nil {
		return
	}
	seen := make([]int, nk)
	for _, g := range groups {
		vfAssert(len(g.Indexes) > 0, "C15 no empty group")
		for _, ix := range g.Indexes {
			want, ok := specRoute(desc, keys[ix])
			vfAssert(ok && want == g.PartitionID, "C15 every key index is grouped under the partition it routes to")
			seen[ix]++
		}
	}
	for i := range seen {
		vfAssert(seen[i] == 1, "C15 every key index appears in exactly one group")
	}
	for a := 0; a < len(groups); a++ {
		for b := a + 1; b < len(groups); b++ {
			vfAssert(groups[a].PartitionID != groups[b].PartitionID, "C15 one group per partition")
		}
	}
	vfCover("c15-group-ok")
}

var vfOwnerIDs = []string{"o0", "o1", "o2"}

// vfArbPartitionRing: an arbitrary partition ring of np partitions (fixed
// small tokens) and no owners with symbolic states, timestamps and locks.
func vfArbPartitionRing(np, no int) *PartitionRingDesc {
	desc := NewPartitionRingDesc()
	for p := 0; p < np; p++ {
		ts := vfI64("pts")
		vfAssume(vfAnd(ts >= 1, ts <= vfEpoch+(1<<31)))
		lts := vfI64("plockts")
		vfAssume(vfAnd(lts >= 0, lts <= vfEpoch+(1<<31)))
		desc.Partitions[int32(p)] = PartitionDesc{Id: int32(p), Tokens: []uint32{uint32(10 + p), uint32(100 + p)},
			State: vfPartState("pstate"), StateTimestamp: ts, StateChangeLocked: vfBool("plocked"), StateChangeLockedTimestamp: lts}
	}
	for o := 0; o < no; o++ {
		ts := vfI64("ots")
		vfAssume(vfAnd(ts >= 1, ts <= vfEpoch+(1<<31)))
		op := vfI32("opart")
		vfAssume(vfAnd(op >= 0, op < int32(np)))
		desc.Owners[vfOwnerIDs[o]] = OwnerDesc{OwnedPartition: op, State: OwnerActive, UpdatedTimestamp: ts}
	}
	return desc
}

func vfClonePRD(d *PartitionRingDesc) *PartitionRingDesc {
	c := NewPartitionRingDesc()
	for id, p := range d.Partitions {
		c.Partitions[id] = p
	}
	for id, o := range d.Owners {
		c.Owners[id] = o
	}
	return c
}

func vfSamePartition(a, b PartitionDesc) bool {
	return vfAnd(vfAnd(a.State == b.State, a.StateTimestamp == b.StateTimestamp),
		vfAnd(a.StateChangeLocked == b.StateChangeLocked, a.StateChangeLockedTimestamp == b.StateChangeLockedTimestamp))
}

func vfSameOwner(a, b OwnerDesc) bool {
	return vfAnd(a.OwnedPartition == b.OwnedPartition, vfAnd(a.State == b.State, a.UpdatedTimestamp == b.UpdatedTimestamp))
}

func specAllowed(from, to PartitionState) bool {
	return vfOr(vfAnd(from == PartitionPending, vfOr(to == PartitionActive, to == PartitionInactive)),
		vfOr(vfAnd(from == PartitionActive, to == PartitionInactive), vfAnd(from == PartitionInactive, to == PartitionActive)))
}

// HarnessC15_Transitions: editor actions on an arbitrary ring.
func HarnessC15_Transitions() {
	np := vfParam("parts", 2)
	pre := vfArbPartitionRing(np, 1)
	ring := vfClonePRD(pre)
	store := &vfKV{val: ring}
	ed := NewPartitionRingEditor("k", store)
	pid := int32(vfChoice("pid", np+1)) // np = a partition that does not exist
	now := vfI64("now")
	vfAssume(vfAnd(now >= vfEpoch, now <= vfEpoch+(1<<31)))
	vfSetNow(now)
	action := vfChoice("action", 2)
	var err error
	to := PartitionState(0)
	locked := false
	switch action {
	case 0:
		to = PartitionState(vfI32("to"))
		vfAssume(vfAnd(to >= PartitionUnknown, to <= PartitionDeleted))
		err = ed.ChangePartitionState(context.Background(), pid, to)
	case 1:
		locked = vfBool("lock")
		err = ed.SetPartitionStateChangeLock(context.Background(), pid, locked)
	}
	vfObserve("err", err != nil)
	vfObserve("writes", store.writes)
	post := store.val.(*PartitionRingDesc)
	// frame: other partitions and all owners untouched
	vfAssert(len(post.Partitions) == np && len(post.Owners) == 1, "C15 editor never adds or removes partitions/owners")
	for p := int32(0); int(p) < np; p++ {
		if p != pid {
			vfAssert(vfSamePartition(pre.Partitions[p], post.Partitions[p]), "C15 other partitions untouched")
		}
	}
	vfAssert(vfSameOwner(pre.Owners["o0"], post.Owners["o0"]), "C15 owners untouched")
	if int(pid) >= np {
		vfAssert(err == ErrPartitionDoesNotExist && store.writes == 0, "C15 unknown partition is rejected without a write")
		vfCover("c15-trans-missing")
		return
	}
	a, b := pre.Partitions[pid], post.Partitions[pid]
	if action == 0 {
		vfAssert(vfAnd(a.StateChangeLocked == b.StateChangeLocked, a.StateChangeLockedTimestamp == b.StateChangeLockedTimestamp), "C15 state change leaves the lock alone")
		if b.State != a.State {
			vfAssert(specAllowed(a.State, b.State), "C15 state changes only along pending->active|inactive and active<->inactive")
			vfAssert(!a.StateChangeLocked, "C15 state never changes while locked")
			vfAssert(b.State == to, "C15 state becomes the requested one")
			vfAssert(b.StateTimestamp == now, "C15 state timestamp set to now")
			vfAssert(err == nil && store.writes == 1, "C15 a change is written once")
			vfCover("c15-trans-changed")
		} else {
			vfAssert(b.StateTimestamp == a.StateTimestamp, "C15 unchanged state keeps its timestamp")
			vfAssert(store.writes == 0, "C15 no change => no write")
			// an allowed, unlocked, different target must have been applied
			if vfAnd(to != a.State, vfAnd(specAllowed(a.State, to), !a.StateChangeLocked)) {
				vfAssert(false, "C15 an allowed unlocked state change is applied")
			}
			vfCover("c15-trans-unchanged")
		}
	} else {
		vfAssert(vfAnd(a.State == b.State, a.StateTimestamp == b.StateTimestamp), "C15 lock change leaves the state alone")
		vfAssert(b.StateChangeLocked == locked, "C15 lock flag ends as requested")
		if a.StateChangeLocked != locked {
			vfAssert(b.StateChangeLockedTimestamp == now && store.writes == 1, "C15 lock change stamped with now and written once")
		} else {
			vfAssert(b.StateChangeLockedTimestamp == a.StateChangeLockedTimestamp && store.writes == 0, "C15 unchanged lock => no write")
		}
		vfCover("c15-trans-lock")
	}
}

func vfPartLifecycler(store *vfKV, pid int32, waitCount int, wait, del time.Duration) *PartitionInstanceLifecycler {
	cfg := PartitionInstanceLifecyclerConfig{PartitionID: pid, InstanceID: "o0", WaitOwnersCountOnPending: waitCount,
		WaitOwnersDurationOnPending: wait, DeleteInactivePartitionAfterDuration: del}
	return NewPartitionInstanceLifecycler(cfg, "r", "k", store, log.NewNopLogger(), nil)
}

// HarnessC15_ReconcileOwned: a pending partition is promoted exactly when
// enough owners have been registered for long enough (and it is not locked).
func HarnessC15_ReconcileOwned() {
	np := 2
	no := vfParam("owners", 2)
	pre := vfArbPartitionRing(np, no)
	store := &vfKV{val: vfClonePRD(pre)}
	waitCount := vfChoice("waitcount", no+2)
	waitS := vfI64("wait_s")
	vfAssume(vfAnd(waitS >= 0, waitS <= 1<<24))
	now := vfI64("now")
	vfAssume(vfAnd(now >= vfEpoch, now <= vfEpoch+(1<<31)))
	l := vfPartLifecycler(store, 0, waitCount, time.Duration(waitS)*time.Second, 0)
	// the reconcile tick may fall anywhere inside a second
	nsec := int64(vfChoice("now_nsec", 2)) * 500000000
	l.reconcileOwnedPartition(context.Background(), time.Unix(now, nsec))
	post := store.val.(*PartitionRingDesc)
	// reference
	eligible := 0
	for o := 0; o < no; o++ {
		od := pre.Owners[vfOwnerIDs[o]]
		if vfAnd(od.OwnedPartition == 0, od.UpdatedTimestamp < now-waitS) {
			eligible++
		}
	}
	a, b := pre.Partitions[0], post.Partitions[0]
	promote := vfAnd(vfAnd(a.State == PartitionPending, !a.StateChangeLocked), eligible >= waitCount)
	vfObserve("state", b.State)
	if promote {
		vfAssert(vfAnd(b.State == PartitionActive, b.StateTimestamp == now), "C15 pending partition promoted once enough owners waited long enough")
		vfCover("c15-owned-promoted")
	} else {
		vfAssert(vfSamePartition(a, b), "C15 partition not promoted before enough owners waited long enough")
		vfAssert(store.writes == 0, "C15 no promotion => no write")
		vfCover("c15-owned-kept")
	}
	vfAssert(vfSamePartition(pre.Partitions[1], post.Partitions[1]), "C15 reconcile of the owned partition leaves others alone")
	vfAssert(len(post.Owners) == no && len(post.Partitions) == np, "C15 reconcile adds/removes nothing")
}

// HarnessC15_ReconcileOther: exactly the partitions that are inactive for
// longer than the delay, ownerless and not the lifecycler's own are deleted.
func HarnessC15_ReconcileOther() {
	np := vfParam("parts", 3)
	no := vfParam("owners", 1)
	pre := vfArbPartitionRing(np, no)
	store := &vfKV{val: vfClonePRD(pre)}
	delS := vfI64("delete_s")
	vfAssume(vfAnd(delS >= 0, delS <= 1<<24))
	now := vfI64("now")
	vfAssume(vfAnd(now >= vfEpoch, now <= vfEpoch+(1<<31)))
	l := vfPartLifecycler(store, 0, 1, 0, time.Duration(delS)*time.Second)
	// the reconcile tick may fall anywhere inside a second
	nsec := int64(vfChoice("now_nsec", 2)) * 500000000
	l.reconcileOtherPartitions(context.Background(), time.Unix(now, nsec))
	post := store.val.(*PartitionRingDesc)
	deleted := 0
	for p := int32(0); int(p) < np; p++ {
		a := pre.Partitions[p]
		owners := 0
		for o := 0; o < no; o++ {
			if pre.Owners[vfOwnerIDs[o]].OwnedPartition == p {
				owners++
			}
		}
		want := vfAnd(vfAnd(p != 0, delS > 0), vfAnd(vfAnd(a.State == PartitionInactive, a.StateTimestamp < now-delS), owners == 0))
		b, exists := post.Partitions[p]
		if want {
			vfAssert(!exists, "C15 partition inactive longer than the delay without owners is deleted")
			deleted++
		} else {
			vfAssert(exists, "C15 partition is kept unless inactive longer than the delay, ownerless and not the lifecycler's own")
			if exists {
				vfAssert(vfSamePartition(a, b), "C15 kept partitions untouched")
			}
		}
	}
	vfObserve("deleted", deleted)
	vfAssert((store.writes == 1) == (deleted > 0), "C15 written iff something was deleted")
	vfAssert(len(post.Owners) == no, "C15 owners untouched")
	vfCover("c15-other-done")
}

func init() { vfRegisterBubble("HarnessC15_ReplicationSets", HarnessC15_ReplicationSets) }

type vfPRReader struct{ pr *PartitionRing }

func (r vfPRReader) PartitionRing() *PartitionRing { return r.pr }

// HarnessC15_ReplicationSets: per-partition replication sets consist of exactly
// the partition's healthy registered owners and require at least one.
func HarnessC15_ReplicationSets() {
	np := 1 + vfChoice("nparts", vfParam("parts", 2))
	no := vfParam("owners", 3)
	now := vfEpoch + 5000
	vfSetNow(now)
	// instance ring: owners o0..o(no-1) may or may not be registered, with symbolic state and heartbeat
	d := NewDesc()
	registered := map[string]bool{}
	healthy := map[string]bool{}
	opIdx := vfChoice("op", 4)
	for o := 0; o < no; o++ {
		id := vfOwnerIDs[o]
		if vfChoice("registered", 2) == 0 {
			continue
		}
		st := InstanceState(vfI32("st_" + id))
		vfAssume(vfAnd(st >= ACTIVE, st <= JOINING))
		ts := vfI64("ts_" + id)
		vfAssume(vfAnd(ts >= now-1000, ts <= now))
		zone := vfZones[vfChoice("zone", 2)]
		d.Ingesters[id] = InstanceDesc{Id: id, Addr: id, Zone: zone, State: st, Timestamp: ts, RegisteredTimestamp: 7, Tokens: []uint32{uint32(100 * (o + 1))}}
		registered[id] = true
		healthy[id] = vfAnd(specHealthyStateC15(opIdx, st), now-ts <= 60)
	}
	ir := vfMkRing(d, 1, false, time.Minute)
	// partition ring: each owner owns one partition (symbolic which)
	desc := NewPartitionRingDesc()
	for p := 0; p < np; p++ {
		desc.Partitions[int32(p)] = PartitionDesc{Id: int32(p), Tokens: []uint32{uint32(10 + p)}, State: PartitionActive, StateTimestamp: vfEpoch}
	}
	ownerOf := map[string]int32{}
	for o := 0; o < no; o++ {
		p := int32(vfChoice("owns", np))
		ownerOf[vfOwnerIDs[o]] = p
		desc.Owners[vfOwnerIDs[o]] = OwnerDesc{OwnedPartition: p, State: OwnerActive, UpdatedTimestamp: vfEpoch}
	}
	pr, err := NewPartitionRing(*desc)
	vfAssert(err == nil, "C15 partition ring builds")
	pir := NewPartitionInstanceRing(vfPRReader{pr}, ir, time.Minute)
	sets, err := pir.GetReplicationSetsForOperation([]Operation{Write, WriteNoExtend, Read, Reporting}[opIdx])
	// reference: healthy registered owners per partition
	anyEmpty := false
	for p := int32(0); int(p) < np; p++ {
		n := 0
		for o := 0; o < no; o++ {
			id := vfOwnerIDs[o]
			if ownerOf[id] == p && registered[id] && healthy[id] {
				n++
			}
		}
		if n == 0 {
			anyEmpty = true
		}
	}
	vfObserve("err", err != nil)
	if anyEmpty {
		vfAssert(err != nil, "C15 a partition without a healthy registered owner makes the lookup fail")
		vfCover("c15-rs-fail")
		return
	}
	vfAssert(err == nil && len(sets) == np, "C15 one replication set per partition when every partition has a healthy owner")
	if err != nil {
		return
	}
	for _, rs := range sets {
		// which partition is it? all its instances own the same partition
		vfAssert(len(rs.Instances) > 0, "C15 a replication set has at least one instance")
		p := ownerOf[rs.Instances[0].Id]
		zones := map[string]bool{}
		for i := range rs.Instances {
			id := rs.Instances[i].Id
			vfAssert(ownerOf[id] == p && registered[id], "C15 a replication set holds only registered owners of its partition")
			vfAssert(healthy[id], "C15 a replication set holds only healthy owners")
			zones[rs.Instances[i].Zone] = true
		}
		for o := 0; o < no; o++ {
			id := vfOwnerIDs[o]
			if ownerOf[id] == p && registered[id] && healthy[id] {
				vfAssert(vfHasID(rs, id), "C15 every healthy registered owner of the partition is in its replication set")
			}
		}
		vfAssert(rs.MaxUnavailableZones == len(zones)-1, "C15 a partition read needs one zone: MaxUnavailableZones = zones - 1")
	}
	vfCover("c15-rs-ok")
}

func specHealthyStateC15(opIdx int, s InstanceState) bool {
	switch opIdx {
	case 0, 1:
		return s == ACTIVE
	case 2:
		return vfOr(s == ACTIVE, vfOr(s == PENDING, s == LEAVING))
	}
	return true
}

func init() { vfRegisterBubble("HarnessC15_Startup", HarnessC15_Startup) }

// HarnessC15_Startup: the lifecycler's start-up (create or wait for the
// partition, then register as owner) on the virtual clock: the owner is stamped
// with the instant of its registration - not with an earlier one taken before
// waiting - so a pending partition is not promoted before the owner has been
// registered for the configured duration.
func HarnessC15_Startup() {
	now0 := vfEpoch + 1000
	vfSetNow(now0)
	create := vfChoice("create_on_startup", 2) == 1
	desc := NewPartitionRingDesc()
	preexisting := create && vfChoice("partition_exists", 2) == 1
	if preexisting {
		desc.Partitions[0] = PartitionDesc{Id: 0, Tokens: []uint32{5}, State: vfPartState("pstate"), StateTimestamp: now0 - 500}
	}
	store := &vfKV{val: desc}
	cfg := PartitionInstanceLifecyclerConfig{PartitionID: 0, InstanceID: "o0", WaitOwnersCountOnPending: 1,
		WaitOwnersDurationOnPending: 10 * time.Second, DeleteInactivePartitionAfterDuration: 0, PollingInterval: 2 * time.Second}
	l := NewPartitionInstanceLifecycler(cfg, "r", "k", store, log.NewNopLogger(), nil)
	l.SetCreatePartitionOnStartup(create)
	ctx, cancel := context.WithCancel(context.Background())
	done := make(chan error, 1)
	go func() { done <- l.starting(ctx) }()
	vfQuiesce()
	waited := int64(0)
	if !create {
		select {
		case <-done:
			vfAssert(false, "C15 without create-on-startup the lifecycler waits for the partition")
		default:
		}
		// somebody else creates the partition later
		k := 1 + vfChoice("wait_polls", 3)
		vfAdvance(time.Duration(k) * 5 * time.Second)
		waited = int64(k) * 5
		vfQuiesce()
		d := store.val.(*PartitionRingDesc)
		d.Partitions[0] = PartitionDesc{Id: 0, Tokens: []uint32{5}, State: PartitionPending, StateTimestamp: now0 + waited}
		vfAdvance(2300 * time.Millisecond)
		// the next poll (every 2 s from start-up) after the creation finds the partition
		waited = (waited/2 + 1) * 2
		vfQuiesce()
	}
	select {
	case err := <-done:
		vfAssert(err == nil, "C15 start-up succeeds")
	default:
		vfAssert(false, "C15 start-up ends once the partition exists")
	}
	d := store.val.(*PartitionRingDesc)
	o, ok := d.Owners["o0"]
	vfAssert(ok && o.OwnedPartition == 0 && o.State == OwnerActive, "C15 start-up registers the instance as owner of its partition")
	regAt := now0 + waited
	vfAssert(o.UpdatedTimestamp == regAt, "C15 the owner is stamped with the instant of its registration")
	p, ok := d.Partitions[0]
	vfAssert(ok, "C15 the partition exists after start-up")
	if create && !preexisting {
		vfAssert(p.State == PartitionPending && p.StateTimestamp == now0, "C15 a partition created on start-up is pending, stamped with now")
	}
	// a reconciliation right after start-up must not promote: the owner has not been registered for long enough
	wasPending := p.State == PartitionPending
	l.reconcileOwnedPartition(ctx, time.Unix(regAt, 0))
	p2 := store.val.(*PartitionRingDesc).Partitions[0]
	if wasPending {
		vfAssert(p2.State == PartitionPending, "C15 a pending partition is promoted only after its owners have been registered for long enough")
	}
	l.reconcileOwnedPartition(ctx, time.Unix(regAt+11, 0))
	p3 := store.val.(*PartitionRingDesc).Partitions[0]
	if wasPending {
		vfAssert(p3.State == PartitionActive, "C15 a pending partition is promoted once its owners have been registered for long enough")
	}
	cancel()
	vfQuiesce()
	vfCover("c15-startup-done")
}
