//go:build verif

package ring

import (
	"context"
	"math/rand"
	"time"

	"github.com/go-kit/log"

	"github.com/grafana/dskit/kv"
)

// C08 - a lifecycler edits only its own ring entry and follows the state
// machine. Each ring write of the lifecycler is a CAS closure; the harness store
// applies it to an ARBITRARY symbolic ring, so one step covers every history.

func init() {
	vfRegisterBubble("HarnessC08_InitRing", HarnessC08_InitRing)
	vfRegisterBubble("HarnessC08_AutoJoin", HarnessC08_AutoJoin)
	vfRegisterBubble("HarnessC08_Heartbeat", HarnessC08_Heartbeat)
	vfRegisterBubble("HarnessC08_ChangeState", HarnessC08_ChangeState)
	vfRegisterBubble("HarnessC08_Ready", HarnessC08_Ready)
}

const vfOwnID = "i0"

func vfNewLifecycler(store *vfKV, numTokens int, src rand.Source) *Lifecycler {
	return vfNewLifecyclerKV(store, numTokens, src)
}

func vfNewLifecyclerKV(store kv.Client, numTokens int, src rand.Source) *Lifecycler {
	return vfNewLifecyclerFT(store, numTokens, src, nil)
}

func vfNewLifecyclerFT(store kv.Client, numTokens int, src rand.Source, ft FlushTransferer) *Lifecycler {
	var cfg LifecyclerConfig
	cfg.RingConfig.KVStore.Mock = store
	cfg.RingConfig.HeartbeatTimeout = time.Minute
	cfg.RingConfig.ReplicationFactor = 1
	cfg.NumTokens = numTokens
	cfg.HeartbeatPeriod = 5 * time.Second
	cfg.HeartbeatTimeout = time.Minute
	cfg.ID = vfOwnID
	cfg.Addr = "addr-own"
	cfg.Zone = "z"
	cfg.Port = 1
	cfg.ReadinessCheckRingHealth = true
	if src != nil {
		cfg.RingTokenGenerator = &RandomTokenGenerator{r: rand.New(src)}
	}
	l, err := NewLifecycler(cfg, ft, "r", "k", ft != nil, log.NewNopLogger(), nil)
	vfAssert(err == nil, "C08 lifecycler is created")
	return l
}

// vfArbRing: an arbitrary ring with nForeign other instances (<=1 token each)
// and, if ownPresent, an entry of the lifecycler's own id.
type vfOwnGen struct {
	present bool
	st      InstanceState
	ts, reg int64
	toks    []uint32
}

func vfArbRing(nForeign int, own *vfOwnGen, ownTok int, now int64) *Desc {
	return vfArbRingL(nForeign, own, ownTok, now, false)
}

// vfArbRingL: with lean, foreign entries are ACTIVE with a fresh heartbeat
// (their content is irrelevant to the step under test, only their identity).
func vfArbRingL(nForeign int, own *vfOwnGen, ownTok int, now int64, lean bool) *Desc {
	d := NewDesc()
	for i := 1; i <= nForeign; i++ {
		id := vfIDs[i]
		st, ts := ACTIVE, now
		if !lean {
			st = InstanceState(vfI32("st_" + id))
			vfAssume(vfAnd(st >= ACTIVE, st <= JOINING))
			ts = vfI64("ts_" + id)
			vfAssume(vfAnd(ts >= now-(1<<20), ts <= now))
		}
		d.Ingesters[id] = InstanceDesc{Id: id, Addr: "addr-" + id, Zone: "z", State: st, Timestamp: ts, RegisteredTimestamp: 7,
			Tokens: []uint32{vfU32("tok_" + id)}}
	}
	if own != nil && own.present {
		own.st = InstanceState(vfI32("st_own"))
		vfAssume(vfAnd(own.st >= ACTIVE, own.st <= JOINING))
		own.ts = vfI64("ts_own")
		vfAssume(vfAnd(own.ts >= now-(1<<20), own.ts <= now))
		own.reg = vfI64("reg_own")
		vfAssume(vfAnd(own.reg >= 0, own.reg <= now))
		own.toks = vfSymTokens("tok_own", ownTok)
		d.Ingesters[vfOwnID] = InstanceDesc{Id: vfOwnID, Addr: "addr-old", Zone: "zold", State: own.st, Timestamp: own.ts,
			RegisteredTimestamp: own.reg, Tokens: append([]uint32(nil), own.toks...)}
	}
	vfAssumeDistinctTokens(d)
	return d
}

// vfForeignUntouched: every foreign entry of out equals in's.
func vfForeignUntouched(in, out *Desc) bool {
	res := true
	nIn := 0
	for id, a := range in.Ingesters {
		if id == vfOwnID {
			continue
		}
		nIn++
		b, ok := out.Ingesters[id]
		if !ok {
			return false
		}
		res = vfAnd(res, vfSameInstance(a, b))
	}
	nOut := 0
	for id := range out.Ingesters {
		if id != vfOwnID {
			nOut++
		}
	}
	return vfAnd(res, nIn == nOut)
}

func vfNowSym() int64 {
	now := vfI64("now")
	vfAssume(vfAnd(now >= vfEpoch, now <= vfEpoch+(1<<30)))
	vfSetNow(now)
	return now
}

// HarnessC08_InitRing: start-up on an arbitrary ring.
func HarnessC08_InitRing() {
	now := vfNowSym()
	numTokens := 1 + vfChoice("numtokens", 2)
	own := &vfOwnGen{present: vfChoice("own_present", 2) == 1}
	ownTok := 0
	if own.present {
		ownTok = vfChoice("own_ntok", 3)
	}
	in := vfArbRing(vfParam("foreign", 1), own, ownTok, now)
	store := &vfKV{val: vfCloneDesc(in)}
	l := vfNewLifecycler(store, numTokens, &vfRandSrc{max: 3})
	err := l.initRing(context.Background())
	vfAssert(err == nil, "C08 initRing succeeds on the in-memory store")
	out := store.val.(*Desc)
	vfAssert(vfForeignUntouched(in, out), "C08 start-up edits only the lifecycler's own entry")
	me, ok := out.Ingesters[vfOwnID]
	vfAssert(ok, "C08 the lifecycler's entry exists after start-up")
	vfObserve("state", me.State)
	if !own.present {
		vfAssert(me.State == PENDING && len(me.Tokens) == 0, "C08 a fresh instance registers as pending without tokens")
		vfAssert(me.RegisteredTimestamp == now, "C08 registration time of a fresh entry is now")
		vfCover("c08-init-fresh")
		return
	}
	vfAssert(me.RegisteredTimestamp == own.reg, "C08 registration time is kept once set")
	switch {
	case own.st == JOINING:
		// initRing itself does not rewrite the entry; the lifecycler restarts from
		// pending and publishes it with its next write.
		vfAssert(l.GetState() == PENDING, "C08 restart edge joining -> pending")
		vfAssert(l.updateConsul(context.Background()) == nil, "C08 first write after restart succeeds")
		me = store.val.(*Desc).Ingesters[vfOwnID]
		vfAssert(me.State == PENDING, "C08 the first write after a restart while joining publishes pending")
		vfAssert(vfSameTokens(me.Tokens, own.toks), "C08 tokens found in the ring are kept")
		vfAssert(vfForeignUntouched(in, store.val.(*Desc)), "C08 the first write after restart edits only the own entry")
		vfCover("c08-init-joining")
	case own.st == LEAVING:
		vfAssert(me.State == ACTIVE, "C08 restart edge leaving -> active")
		vfAssert(len(me.Tokens) == numTokens, "C08 an instance returning from leaving holds the configured number of tokens")
		for i := 1; i < len(me.Tokens); i++ {
			vfAssert(me.Tokens[i-1] < me.Tokens[i], "C08 tokens are sorted and distinct")
		}
		for id, f := range in.Ingesters {
			if id == vfOwnID {
				continue
			}
			for _, t := range me.Tokens {
				vfAssert(t != f.Tokens[0], "C08 tokens do not collide with tokens of other instances visible in the ring")
			}
		}
		vfCover("c08-init-leaving")
	default:
		vfAssert(me.State == own.st, "C08 start-up keeps the state found in the ring")
		vfAssert(vfSameTokens(me.Tokens, own.toks), "C08 tokens found in the ring are kept")
		vfCover("c08-init-other")
	}
	vfAssert(me.Timestamp >= own.ts, "C08 heartbeat timestamp never goes backwards")
}

// HarnessC08_AutoJoin: joining afresh on an arbitrary ring.
func HarnessC08_AutoJoin() {
	now := vfNowSym()
	numTokens := 1 + vfChoice("numtokens", 2)
	nForeign := vfParam("foreign", 2)
	own := &vfOwnGen{present: true}
	in := vfArbRing(nForeign, own, 0, now)
	vfAssume(own.st == PENDING)
	store := &vfKV{val: vfCloneDesc(in)}
	l := vfNewLifecycler(store, numTokens, &vfRandSrc{max: numTokens + 2})
	vfAssert(l.initRing(context.Background()) == nil, "C08 initRing succeeds")
	target := []InstanceState{ACTIVE, JOINING}[vfChoice("target", 2)]
	vfAssert(l.autoJoin(context.Background(), target) == nil, "C08 autoJoin succeeds")
	out := store.val.(*Desc)
	vfAssert(vfForeignUntouched(in, out), "C08 joining edits only the lifecycler's own entry")
	me := out.Ingesters[vfOwnID]
	vfAssert(me.State == target, "C08 joining publishes the target state")
	vfAssert(len(me.Tokens) == numTokens, "C08 exactly the configured number of tokens")
	for i := 1; i < len(me.Tokens); i++ {
		vfAssert(me.Tokens[i-1] < me.Tokens[i], "C08 tokens are sorted and distinct")
	}
	for id, f := range in.Ingesters {
		if id == vfOwnID {
			continue
		}
		for _, t := range me.Tokens {
			vfAssert(t != f.Tokens[0], "C08 no chosen token was visible in the ring as another instance's token")
		}
	}
	vfAssert(me.RegisteredTimestamp == own.reg, "C08 registration time is kept")
	vfAssert(vfSameTokens(l.getTokens(), me.Tokens), "C08 the lifecycler remembers the tokens it published")
	vfCover("c08-autojoin-done")
}

// HarnessC08_Heartbeat: the periodic update on an arbitrary ring, including a
// ring that lost the entry.
func HarnessC08_Heartbeat() {
	now := vfNowSym()
	own := &vfOwnGen{present: true}
	first := vfArbRingL(1, own, 1, now, false)
	vfAssume(own.st == ACTIVE)
	store := &vfKV{val: vfCloneDesc(first)}
	l := vfNewLifecycler(store, 1, nil)
	vfAssert(l.initRing(context.Background()) == nil, "C08 initRing succeeds")
	// later: the store holds an arbitrary ring, with or without our entry
	later := vfI64("later")
	vfAssume(vfAnd(later >= now, later <= now+(1<<20)))
	vfSetNow(later)
	lost := vfChoice("entry_lost", 2) == 1
	in := NewDesc()
	f := first.Ingesters["i1"]
	f.Timestamp = vfI64("ts_i1_later")
	vfAssume(vfAnd(f.Timestamp >= later-(1<<20), f.Timestamp <= later))
	in.Ingesters["i1"] = f
	prevTs := store.val.(*Desc).Ingesters[vfOwnID].Timestamp
	if !lost {
		in.Ingesters[vfOwnID] = store.val.(*Desc).Ingesters[vfOwnID]
	}
	store.val = vfCloneDesc(in)
	vfAssert(l.updateConsul(context.Background()) == nil, "C08 heartbeat succeeds")
	out := store.val.(*Desc)
	vfAssert(vfForeignUntouched(in, out), "C08 a heartbeat edits only the lifecycler's own entry")
	me, ok := out.Ingesters[vfOwnID]
	vfAssert(ok, "C08 the entry exists after a heartbeat")
	vfAssert(me.Timestamp == later && me.Timestamp >= prevTs, "C08 the heartbeat timestamp is refreshed and never goes backwards")
	vfAssert(me.State == ACTIVE && vfSameTokens(me.Tokens, own.toks), "C08 state and tokens are re-published as remembered")
	if lost {
		vfAssert(me.RegisteredTimestamp == later, "C08 an entry lost by the store is re-registered with a fresh registration time")
		vfCover("c08-heartbeat-lost")
	} else {
		vfAssert(me.RegisteredTimestamp == own.reg, "C08 registration time is kept")
		vfCover("c08-heartbeat-kept")
	}
}

// HarnessC08_ChangeState: only the documented transitions are published.
func HarnessC08_ChangeState() {
	now := vfNowSym()
	own := &vfOwnGen{present: true}
	in := vfArbRingL(1, own, 1, now, false)
	vfAssume(vfAnd(own.st != JOINING, own.st != LEAVING)) // restart edges are covered by InitRing
	store := &vfKV{val: vfCloneDesc(in)}
	l := vfNewLifecycler(store, 1, nil)
	vfAssert(l.initRing(context.Background()) == nil, "C08 initRing succeeds")
	from := l.GetState()
	to := InstanceState(vfI32("to"))
	vfAssume(vfAnd(to >= ACTIVE, to <= LEFT))
	before := vfCloneDesc(store.val.(*Desc))
	err := l.changeState(context.Background(), to)
	out := store.val.(*Desc)
	legal := vfOr(vfOr(vfAnd(from == PENDING, to == JOINING), vfAnd(from == PENDING, to == ACTIVE)), vfAnd(from == ACTIVE, to == LEAVING))
	if err == nil {
		vfAssert(legal, "C08 published states follow pending -> joining -> active -> leaving")
		vfAssert(out.Ingesters[vfOwnID].State == to, "C08 the new state is published")
		vfAssert(vfForeignUntouched(before, out), "C08 a state change edits only the lifecycler's own entry")
		vfCover("c08-changestate-ok")
	} else {
		vfAssert(!legal, "C08 a documented transition is accepted")
		vfAssert(vfSameDesc(before, out), "C08 a rejected transition writes nothing")
		vfCover("c08-changestate-rejected")
	}
}

// HarnessC08_Ready: ready implies active with tokens and, when configured,
// every ring member active and healthy.
func HarnessC08_Ready() {
	now := vfNowSym()
	own := &vfOwnGen{present: true}
	ownTok := vfChoice("own_ntok", 2)
	in := vfArbRing(1, own, ownTok, now)
	store := &vfKV{val: vfCloneDesc(in)}
	l := vfNewLifecycler(store, 1, &vfRandSrc{max: 3})
	vfAssert(l.initRing(context.Background()) == nil, "C08 initRing succeeds")
	err := l.CheckReady(context.Background())
	vfObserve("ready", err == nil)
	if err == nil {
		ring := store.val.(*Desc)
		me := ring.Ingesters[vfOwnID]
		vfAssert(len(me.Tokens) > 0, "C08 ready only with tokens")
		vfAssert(me.State == ACTIVE, "C08 ready only when active")
		for id, ing := range ring.Ingesters {
			vfAssert(ing.State == ACTIVE, "C08 ready only when every ring member is active")
			vfAssert(now-ing.Timestamp <= 60, "C08 ready only when every ring member is healthy")
			_ = id
		}
		vfCover("c08-ready-yes")
	} else {
		vfCover("c08-ready-no")
	}
}
