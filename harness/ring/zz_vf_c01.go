//go:build verif

package ring

import (
	"sort"
	"time"
)

// C01 - key lookup returns the consistent-hash replica set and its exact
// quorum slack.
//
// The reference model below is written from the property statement and the
// documented meaning of the four built-in operations; it works on the
// descriptor, not on the ring's indexes.

func init() {
	vfRegisterBubble("HarnessC01_Walk", HarnessC01_Walk)
	vfRegisterBubble("HarnessC01_Filter", HarnessC01_Filter)
	vfRegisterBubble("HarnessC01_Get", HarnessC01_Get)
	vfRegisterBubble("HarnessC01_Locality", HarnessC01_Locality)
}

var vfOps = []Operation{Write, WriteNoExtend, Read, Reporting}

// specExtends: does the operation declare state s as extending the set?
// Write: every state but ACTIVE; Read: every state but ACTIVE and LEAVING;
// WriteNoExtend and Reporting: never.
func specExtends(opIdx int, s InstanceState) bool {
	switch opIdx {
	case 0:
		return s != ACTIVE
	case 2:
		return vfAnd(s != ACTIVE, s != LEAVING)
	}
	return false
}

// specStateHealthy: states in which an instance can serve the operation.
func specStateHealthy(opIdx int, s InstanceState) bool {
	switch opIdx {
	case 0, 1:
		return s == ACTIVE
	case 2:
		return vfOr(s == ACTIVE, vfOr(s == PENDING, s == LEAVING))
	}
	return true
}

type specTok struct {
	tok uint32
	id  string
}

// specWalk: walk the token circle clockwise from the first token strictly
// greater than the key, taking distinct instances (at most one non-extending
// instance per zone when zone-aware), one more for every walked instance whose
// state extends the set.
func specWalk(d *Desc, key uint32, opIdx int, rf int, zoneAware bool) []string {
	var toks []specTok
	for _, id := range vfSortedIDs(d) {
		for _, t := range d.Ingesters[id].Tokens {
			toks = append(toks, specTok{t, id})
		}
	}
	if len(toks) == 0 {
		return nil
	}
	sort.Slice(toks, func(i, j int) bool { return toks[i].tok < toks[j].tok })
	start := 0
	for start < len(toks) && toks[start].tok <= key {
		start++
	}
	if start == len(toks) {
		start = 0
	}
	need := rf
	seen := map[string]bool{}
	zoneFound := map[string]int{}
	var out []string
	for n := 0; n < len(toks); n++ {
		if len(out) >= need || len(out) >= len(d.Ingesters) {
			break
		}
		id := toks[(start+n)%len(toks)].id
		if seen[id] {
			continue
		}
		ing := d.Ingesters[id]
		if zoneAware && ing.Zone != "" && zoneFound[ing.Zone] >= 1 {
			continue
		}
		seen[id] = true
		out = append(out, id)
		if specExtends(opIdx, ing.State) {
			need++
		} else if zoneAware && ing.Zone != "" {
			zoneFound[ing.Zone]++
		}
	}
	return out
}

// vfC01Desc builds a descriptor of n instances with symbolic tokens and states.
// zoneMode: 0 = no zones, otherwise a canonical zone assignment chosen by vfChoice.
func vfC01Desc(n, maxTok int, zoned bool, symHealth bool) *Desc {
	d := NewDesc()
	nextZone := 0
	total := 0
	for i := 0; i < n; i++ {
		id := vfIDs[i]
		zone := ""
		if zoned {
			// canonical assignment: "" or an already used zone or the next new one
			z := vfChoice("zone", nextZone+2)
			if z > 0 {
				zone = vfZones[z-1]
				if z-1 == nextZone {
					nextZone++
				}
			}
		}
		nt := vfChoice("ntok", maxTok+1)
		total += nt
		st := InstanceState(vfI32("state_" + id))
		if nt > 0 {
			vfAssume(vfAnd(st >= ACTIVE, st <= JOINING))
		} else {
			vfAssume(vfAnd(st >= ACTIVE, st <= LEFT))
		}
		ts := vfEpoch
		if symHealth {
			ts = vfI64("ts_" + id)
			vfAssume(vfAnd(ts >= vfEpoch-(1<<30), ts <= vfEpoch+(1<<31)))
		}
		d.Ingesters[id] = InstanceDesc{Id: id, Addr: id, Zone: zone, State: st, Timestamp: ts,
			RegisteredTimestamp: vfEpoch - 1000, Tokens: vfSymTokens("tok_"+id, nt)}
	}
	vfAssumeDistinctTokens(d)
	return d
}

func vfSameIDSet(got []InstanceDesc, want []string) bool {
	if len(got) != len(want) {
		return false
	}
	for _, w := range want {
		found := false
		for i := range got {
			if got[i].Id == w {
				found = true
			}
		}
		if !found {
			return false
		}
	}
	return true
}

// HarnessC01_Walk: the walked set of the real lookup equals the reference walk,
// for all token placements, keys and states.
func HarnessC01_Walk() {
	maxInst := vfParam("inst", 3)
	maxTok := vfParam("tok", 2)
	maxRF := vfParam("rf", 3)
	n := 1 + vfChoice("n", maxInst)
	zoneAware := vfChoice("za", 2) == 1
	rf := 1 + vfChoice("rf", maxRF)
	opIdx := vfChoice("op", 3)
	d := vfC01Desc(n, maxTok, zoneAware, false)
	r := vfMkRing(d, rf, zoneAware, time.Minute)
	key := vfU32("key")
	want := specWalk(d, key, opIdx, rf, zoneAware)
	if want == nil {
		_, err := r.Get(key, vfOps[opIdx], nil, nil, nil)
		vfAssert(err == ErrEmptyRing, "C01 a ring without tokens reports ErrEmptyRing")
		vfCover("c01-walk-empty")
		return
	}
	r.mtx.RLock()
	got, err := r.findInstancesForKey(key, vfOps[opIdx], nil, nil, rf, nil)
	r.mtx.RUnlock()
	vfAssert(err == nil, "C01 walk never reports inconsistent token information")
	if err != nil {
		return
	}
	ids := make([]string, len(got))
	for i := range got {
		ids[i] = got[i].Id
	}
	vfObserve("walked", ids)
	vfAssert(vfSameIDSet(got, want), "C01 walked set == clockwise walk from the first token strictly greater than the key")
	vfCover("c01-walk-done")
}

// HarnessC01_Filter: health filtering and quorum arithmetic on an arbitrary
// walked list.
func HarnessC01_Filter() {
	maxL := vfParam("len", 4)
	maxRF := vfParam("rf", 5)
	l := vfChoice("len", maxL+1)
	rf := 1 + vfChoice("rf", maxRF)
	opIdx := vfChoice("op", 4)
	zoneAware := vfChoice("za", 2) == 1
	now := vfI64("now")
	vfAssume(vfAnd(now >= vfEpoch, now <= vfEpoch+(1<<31)))
	vfSetNow(now)
	// the lookup may happen anywhere inside a second, and the timeout need not
	// be whole seconds: ages are compared exactly, not in whole seconds
	half := vfChoice("half", 3) // 0: whole seconds, 1: lookup at .5 s, 2: timeout ends at .5 s
	nowHalf := int64(0)
	if half == 1 {
		nowHalf = 1
	}
	vfAdvance(time.Duration(nowHalf) * 500 * time.Millisecond)
	toSec := vfI64("timeout_s")
	vfAssume(vfAnd(toSec >= 0, toSec <= 1<<24))
	toHalf := int64(0)
	if half == 2 {
		toHalf = 1
	}
	timeout := time.Duration(toSec)*time.Second + time.Duration(toHalf)*500*time.Millisecond
	insts := make([]InstanceDesc, l)
	healthy := make([]bool, l)
	for i := range insts {
		st := InstanceState(vfI32("state"))
		vfAssume(vfAnd(st >= ACTIVE, st <= LEFT))
		ts := vfI64("ts")
		vfAssume(vfAnd(ts >= vfEpoch-(1<<30), ts <= vfEpoch+(1<<31)))
		insts[i] = InstanceDesc{Id: vfIDs[i], Addr: vfIDs[i], State: st, Timestamp: ts}
		healthy[i] = vfAnd(specStateHealthy(opIdx, st), 2*(now-ts)+nowHalf <= 2*toSec+toHalf)
	}
	in := make([]InstanceDesc, l)
	copy(in, insts)
	got, maxErr, err := NewDefaultReplicationStrategy().Filter(in, vfOps[opIdx], rf, timeout, zoneAware)
	// reference
	nh := 0
	var want []string
	for i := range insts {
		if healthy[i] {
			nh++
			want = append(want, insts[i].Id)
		}
	}
	size := rf
	if l > size {
		size = l
	}
	maj := size/2 + 1
	vfObserve("err", err != nil)
	if nh < maj {
		vfAssert(err != nil, "C01 lookup fails when fewer than a majority of max(walked, RF) is healthy")
		vfCover("c01-filter-fail")
		return
	}
	vfAssert(err == nil, "C01 lookup succeeds when a majority of max(walked, RF) is healthy")
	if err != nil {
		return
	}
	vfObserve("maxErr", maxErr)
	vfAssert(maxErr == nh-maj, "C01 tolerated errors == healthy - majority")
	vfAssert(vfSameIDSet(got, want), "C01 returned set == healthy members of the walked set")
	vfCover("c01-filter-ok")
}

// HarnessC01_Get: the public lookup composes walk and filter (configured
// replication factor, heartbeat timeout, zone-awareness and operation are the
// ones passed through), on a small fully symbolic ring.
func HarnessC01_Get() {
	maxInst := vfParam("inst", 2)
	maxTok := vfParam("tok", 1)
	n := 1 + vfChoice("n", maxInst)
	zoneAware := vfChoice("za", 2) == 1
	rf := 1 + vfChoice("rf", vfParam("rf", 2))
	opIdx := vfChoice("op", 4)
	now := vfI64("now")
	vfAssume(vfAnd(now >= vfEpoch, now <= vfEpoch+(1<<31)))
	vfSetNow(now)
	toSec := vfI64("timeout_s")
	vfAssume(vfAnd(toSec >= 0, toSec <= 1<<24))
	d := vfC01Desc(n, maxTok, zoneAware, true)
	r := vfMkRing(d, rf, zoneAware, time.Duration(toSec)*time.Second)
	key := vfU32("key")
	walked := specWalk(d, key, opIdx, rf, zoneAware)
	rs, err := r.Get(key, vfOps[opIdx], nil, nil, nil)
	if walked == nil {
		vfAssert(err == ErrEmptyRing, "C01 a ring without tokens reports ErrEmptyRing")
		vfCover("c01-get-empty")
		return
	}
	nh := 0
	var want []string
	for _, id := range walked {
		ing := d.Ingesters[id]
		if vfAnd(specStateHealthy(opIdx, ing.State), now-ing.Timestamp <= toSec) {
			nh++
			want = append(want, id)
		}
	}
	size := rf
	if len(walked) > size {
		size = len(walked)
	}
	maj := size/2 + 1
	vfObserve("err", err != nil)
	if nh < maj {
		vfAssert(err != nil, "C01 lookup fails precisely when fewer than a majority is healthy")
		vfCover("c01-get-fail")
		return
	}
	vfAssert(err == nil, "C01 lookup succeeds when a majority is healthy")
	if err != nil {
		return
	}
	vfObserve("ids", rs.GetIDs())
	vfObserve("maxErrors", rs.MaxErrors)
	vfAssert(rs.MaxErrors == nh-maj, "C01 MaxErrors == healthy - majority")
	vfAssert(vfSameIDSet(rs.Instances, want), "C01 replica set == healthy members of the walked set")
	vfCover("c01-get-ok")
}

// HarnessC01_Locality: registering (or, read backwards, removing) one instance
// X changes the walked set only of keys for which X is a replica.
func HarnessC01_Locality() {
	maxInst := vfParam("inst", 2)
	maxTok := vfParam("tok", 2)
	n := 1 + vfChoice("n", maxInst)
	zoneAware := vfChoice("za", 2) == 1
	rf := 1 + vfChoice("rf", vfParam("rf", 3))
	opIdx := vfChoice("op", 3)
	d := vfC01Desc(n, maxTok, zoneAware, false)
	// X: one more instance
	d2 := NewDesc()
	for id, ing := range d.Ingesters {
		d2.Ingesters[id] = ing
	}
	xzone := ""
	if zoneAware {
		xzone = vfZones[vfChoice("xzone", 3)]
	}
	xnt := vfChoice("xntok", maxTok+1)
	xst := InstanceState(vfI32("state_x"))
	vfAssume(vfAnd(xst >= ACTIVE, xst <= JOINING))
	d2.Ingesters["x"] = InstanceDesc{Id: "x", Addr: "x", Zone: xzone, State: xst, Timestamp: vfEpoch,
		RegisteredTimestamp: vfEpoch - 1000, Tokens: vfSymTokens("tok_x", xnt)}
	vfAssumeDistinctTokens(d2)
	r1 := vfMkRing(d, rf, zoneAware, time.Minute)
	r2 := vfMkRing(d2, rf, zoneAware, time.Minute)
	key := vfU32("key")
	if len(r1.ringTokens) == 0 {
		return
	}
	w1, err1 := r1.findInstancesForKey(key, vfOps[opIdx], nil, nil, rf, nil)
	w2, err2 := r2.findInstancesForKey(key, vfOps[opIdx], nil, nil, rf, nil)
	vfAssert(err1 == nil && err2 == nil, "C01 walks succeed")
	if err1 != nil || err2 != nil {
		return
	}
	hasX := false
	for i := range w2 {
		if w2[i].Id == "x" {
			hasX = true
		}
	}
	if hasX {
		vfCover("c01-locality-x-replica")
		return
	}
	ids := make([]string, len(w1))
	for i := range w1 {
		ids[i] = w1[i].Id
	}
	vfAssert(vfSameIDSet(w2, ids), "C01 adding/removing an instance that is not a replica of the key leaves the replica set unchanged")
	vfCover("c01-locality-unchanged")
}

func init() { vfRegisterBubble("HarnessC01_Buffers", HarnessC01_Buffers) }

// HarnessC01_Buffers: the buffers a caller hands to a lookup are storage to be
// overwritten, whatever they contain: a lookup with fresh MakeBuffersForGet()
// buffers, with buffers that still hold the result of an earlier lookup of
// another key (the documented reuse pattern), or with buffers pre-filled with
// instance and zone names of the ring, answers exactly like a lookup without
// buffers.
func HarnessC01_Buffers() {
	n := vfParam("inst", 3)
	zoneAware := vfChoice("za", 2) == 1
	rf := 1 + vfChoice("rf", vfParam("rf", 3))
	opIdx := 0 // Write
	// all instances active and healthy, one symbolic token each, two zones
	d := NewDesc()
	for i := 0; i < n; i++ {
		id := vfIDs[i]
		d.Ingesters[id] = InstanceDesc{Id: id, Addr: id, Zone: vfZones[i%2], State: ACTIVE, Timestamp: vfEpoch,
			RegisteredTimestamp: vfEpoch - 1000, Tokens: vfSymTokens("tok_"+id, 1)}
	}
	vfAssumeDistinctTokens(d)
	vfSetNow(vfEpoch)
	r := vfMkRing(d, rf, zoneAware, time.Minute)
	key := vfU32("key")
	ref, refErr := r.Get(key, vfOps[opIdx], nil, nil, nil)
	var bd []InstanceDesc
	var bh, bz []string
	switch vfChoice("buffers", 3) {
	case 0:
		bd, bh, bz = MakeBuffersForGet()
	case 1:
		bd, bh, bz = MakeBuffersForGet()
		first, _ := r.Get(vfU32("earlier_key"), vfOps[opIdx], bd, bh, bz)
		// the caller keeps using the slices it got back, at their current length
		bd = first.Instances
		if len(bd) > 0 {
			bh = bh[:len(bd)]
			bz = bz[:len(bd)]
		}
	case 2:
		bd = make([]InstanceDesc, 2, 8)
		bd[0], bd[1] = d.Ingesters[vfIDs[0]], d.Ingesters[vfIDs[0]]
		bh = append(make([]string, 0, 8), vfIDs[0], vfIDs[1])
		bz = append(make([]string, 0, 8), vfZones[0], vfZones[1])
	}
	got, err := r.Get(key, vfOps[opIdx], bd, bh, bz)
	vfAssert((err == nil) == (refErr == nil), "C01 a lookup answers the same whatever the caller's buffers contain")
	if err == nil && refErr == nil {
		ids := make([]string, len(ref.Instances))
		for i := range ref.Instances {
			ids[i] = ref.Instances[i].Id
		}
		vfAssert(vfSameIDSet(got.Instances, ids) && got.MaxErrors == ref.MaxErrors, "C01 a lookup answers the same whatever the caller's buffers contain")
	}
	vfCover("c01-buffers-done")
}
