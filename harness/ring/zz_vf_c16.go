//go:build verif

package ring

import "math/rand"

// C16 - generated tokens are unique, untaken, sorted (integer kernels only).

func init() {
	vfRegister("HarnessC16_Random", HarnessC16_Random)
	vfRegister("HarnessC16_FirstInstance", HarnessC16_FirstInstance)
	vfRegister("HarnessC16_NewToken", HarnessC16_NewToken)
	vfRegister("HarnessC16_SpreadFilter", HarnessC16_SpreadFilter)
}

// vfRandSrc is a random source whose output is arbitrary (solver-chosen).
type vfRandSrc struct {
	draws, max int
}

func (s *vfRandSrc) Int63() int64 {
	s.draws++
	vfAssume(s.draws <= s.max) // longer collision runs are outside the claim
	v := vfI64("rnd")
	vfAssume(v >= 0)
	return v
}
func (s *vfRandSrc) Seed(int64) {}

func HarnessC16_Random() {
	maxReq := vfParam("req", 3)
	maxTaken := vfParam("taken", 3)
	req := vfChoice("req", maxReq+1)
	nt := vfChoice("ntaken", maxTaken+1)
	taken := make([]uint32, nt)
	for i := range taken {
		taken[i] = vfU32("taken")
	}
	src := &vfRandSrc{max: req + 2}
	g := &RandomTokenGenerator{r: rand.New(src)}
	toks := g.GenerateTokens(req, taken)
	vfObserve("tokens", []uint32(toks))
	vfAssert(len(toks) == req, "C16 the requested number of tokens is returned")
	for i := 1; i < len(toks); i++ {
		vfAssert(toks[i-1] < toks[i], "C16 generated tokens are sorted and duplicate-free")
	}
	for _, t := range toks {
		for _, u := range taken {
			vfAssert(t != u, "C16 a generated token is never an already taken one")
		}
	}
	vfCover("c16-random-done")
}

func HarnessC16_FirstInstance() {
	zone := vfInt("zone")
	vfAssume(vfAnd(zone >= 0, zone < maxZonesCount))
	g := NewSpreadMinimizingTokenGeneratorForInstanceAndZoneID("i-", 0, zone, false)
	toks := g.generateFirstInstanceTokens()
	vfAssert(len(toks) == optimalTokensPerInstance, "C16 first instance gets 512 tokens")
	ok := true
	for i := range toks {
		ok = vfAnd(ok, int(toks[i]%maxZonesCount) == zone)
		if i > 0 {
			ok = vfAnd(ok, toks[i-1] < toks[i])
		}
	}
	vfAssert(ok, "C16 first-instance tokens are strictly increasing and congruent to the zone index modulo 8")
	// Tokens of different zones never coincide: they differ modulo 8 (the
	// congruence above holds for every zone index).
	vfCover("c16-first-done")
}

func HarnessC16_NewToken() {
	zone := vfInt("zone")
	vfAssume(vfAnd(zone >= 0, zone < maxZonesCount))
	g := NewSpreadMinimizingTokenGeneratorForInstanceAndZoneID("i-", 1, zone, false)
	prev, tok, opt := vfU32("prev"), vfU32("tok"), vfU32("opt")
	// tokens of a zone are congruent to the zone index and, for the leading
	// zone, at most the highest multiple of 8 (invariant of the generator)
	vfAssume(vfAnd(int(prev%maxZonesCount) == zone, int(tok%maxZonesCount) == zone))
	// the caller derives opt from an instance's optimal ownership (at most
	// half of the key space, for the second instance) divided by its
	// remaining token count
	vfAssume(opt <= 1<<31)
	nt, err := g.calculateNewToken(ringToken{token: tok, prevToken: prev}, opt)
	vfObserve("err", err != nil)
	if err != nil {
		vfCover("c16-newtoken-rejected")
		return
	}
	vfObserve("new", nt)
	vfAssert(nt%maxZonesCount == prev%maxZonesCount, "C16 a new token is congruent to its zone index modulo 8")
	vfAssert(nt != prev, "C16 a new token differs from the lower bound")
	d := tokenDistance(prev, tok)
	dn := tokenDistance(prev, nt)
	// (When the split interval wraps around zero and is exactly opt+8 long the
	// kernel returns the upper bound itself; no generated ring reaches that
	// state for instance indexes <= 1500 - native enumeration, see DESIGN.md.)
	vfAssert(dn <= d, "C16 a new token lies inside the circular interval (lower bound, upper bound] it splits")
	vfCover("c16-newtoken-ok")
}

func HarnessC16_SpreadFilter() {
	inst := vfChoice("inst", vfParam("inst", 2))
	zone := vfChoice("zone", 2)
	req := vfChoice("req", vfParam("req", 3)+1)
	g := NewSpreadMinimizingTokenGeneratorForInstanceAndZoneID("i-", inst, zone, false)
	all, err := g.generateAllTokens()
	vfAssert(err == nil && len(all) == optimalTokensPerInstance, "C16 512 tokens are reserved for the instance")
	nt := vfChoice("ntaken", vfParam("taken", 2)+1)
	taken := make([]uint32, nt)
	for i := range taken {
		taken[i] = vfU32("taken")
	}
	toks := g.GenerateTokens(req, taken)
	vfAssert(len(toks) == req, "C16 the requested count is returned while that many free reserved tokens exist")
	for i := 1; i < len(toks); i++ {
		vfAssert(toks[i-1] < toks[i], "C16 returned tokens are sorted and duplicate-free")
	}
	for _, t := range toks {
		for _, u := range taken {
			vfAssert(t != u, "C16 a returned token is never an already taken one")
		}
		vfAssert(int(t%maxZonesCount) == zone, "C16 every token is congruent to its zone index modulo 8")
	}
	vfCover("c16-filter-done")
}

func init() { vfRegister("HarnessC16_Zones", HarnessC16_Zones) }

// HarnessC16_Zones: the zone index of the spread-minimising generator is a
// function of the SET of configured zones, not of the order in which they are
// listed: whoever computes the tokens of (instance, zone) gets the same ones.
// Every ordering of 1..3 zone names (with one of the names sorting differently
// by length and by bytes) and every member zone.
func HarnessC16_Zones() {
	names := []string{"zone-b", "zone-a", "zone-c", "zone-10"}
	perms3 := [][]int{{0, 1, 2}, {0, 2, 1}, {1, 0, 2}, {1, 2, 0}, {2, 0, 1}, {2, 1, 0}}
	pick := vfChoice("subset", 4) // which name is left out (3 = none of the first three: use 0,1,3)
	var set []string
	switch pick {
	case 0:
		set = []string{names[1], names[2], names[3]}
	case 1:
		set = []string{names[0], names[2], names[3]}
	case 2:
		set = []string{names[0], names[1], names[3]}
	default:
		set = []string{names[0], names[1], names[2]}
	}
	p := perms3[vfChoice("order", 6)]
	listed := []string{set[p[0]], set[p[1]], set[p[2]]}
	zone := set[vfChoice("zone", 3)]
	// reference: position of the zone among the configured zones in byte order
	want := 0
	for _, z := range set {
		if z < zone {
			want++
		}
	}
	inst := vfChoice("instance", 2)
	g, err := NewSpreadMinimizingTokenGenerator("ingester-"+zone+"-"+[]string{"0", "12"}[inst], zone, listed, false)
	vfAssert(err == nil, "C16 generator is created for a configured zone")
	if err != nil {
		return
	}
	vfObserve("zoneid", g.zoneID)
	vfAssert(g.zoneID == want, "C16 the zone index does not depend on the order in which the zones are listed")
	vfAssert(g.instanceID == []int{0, 12}[inst], "C16 the instance index is the numeric suffix of the instance id")
	first := g.generateFirstInstanceTokens()
	vfAssert(len(first) == optimalTokensPerInstance && int(first[0]%maxZonesCount) == want && int(first[len(first)-1]%maxZonesCount) == want,
		"C16 tokens are congruent to the zone index modulo the maximum zone count")
	_, err = NewSpreadMinimizingTokenGenerator("ingester-0", "zone-x", listed, false)
	vfAssert(err != nil, "C16 a zone that is not configured is rejected")
	vfCover("c16-zones-done")
}
