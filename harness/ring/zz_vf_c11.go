//go:build verif

package ring

import (
	"context"
	"errors"
	"sync"
	"time"
)

// C11 - quorum reads return only quorum-backed results and release everything
// else. Replica calls block until a harness-side controller completes them
// (every order and outcome), fires the hedging timer or cancels the caller.

func init() { vfRegisterBubble("HarnessC11_Quorum", HarnessC11_Quorum) }

var vfErrTerminal = errors.New("terminal failure")

type vfReadCall struct {
	idx     int
	ctx     context.Context
	release chan int // 0 ok, 1 error, 2 terminal error
	done    bool
	outcome int
}

func HarnessC11_Quorum() {
	maxInst := vfParam("inst", 3)
	n := 1 + vfChoice("n", maxInst)
	zoneAware := vfChoice("za", 2) == 1
	insts := make([]InstanceDesc, n)
	nz := 0
	for i := range insts {
		zone := ""
		if zoneAware {
			z := vfChoice("zone", nz+1)
			zone = vfZones[z]
			if z == nz {
				nz++
			}
		}
		insts[i] = InstanceDesc{Id: vfIDs[i], Addr: vfIDs[i], Zone: zone, State: ACTIVE}
	}
	rs := ReplicationSet{Instances: insts, ZoneAwarenessEnabled: zoneAware}
	tol := vfInt("tolerance")
	if zoneAware {
		vfAssume(vfAnd(tol >= 0, tol < nz))
		rs.MaxUnavailableZones = tol
	} else {
		vfAssume(vfAnd(tol >= 0, tol < n))
		rs.MaxErrors = tol
	}
	cfg := DoUntilQuorumConfig{MinimizeRequests: vfChoice("minimize", 2) == 1}
	// a hedging delay may be configured without minimisation: it must then be ignored
	hedgeCfg := vfParam("hedge", 1) == 1 && vfChoice("hedging", 2) == 1
	if hedgeCfg {
		cfg.HedgingDelay = time.Second
	}
	hedging := hedgeCfg && cfg.MinimizeRequests
	terminalPred := vfParam("term", 1) == 1 && vfChoice("terminalpred", 2) == 1
	if terminalPred {
		cfg.IsTerminalError = func(err error) bool { return err == vfErrTerminal }
	}
	if zoneAware && vfParam("sort", 1) == 1 && vfChoice("sorter", 2) == 1 {
		cfg.ZoneSorter = func(zones []string) []string { return zones }
	}

	var mu sync.Mutex
	var calls []*vfReadCall
	cleaned := map[int]int{}
	f := func(ctx context.Context, d *InstanceDesc) (int, error) {
		idx := -1
		for i := range insts {
			if insts[i].Id == d.Id {
				idx = i
			}
		}
		c := &vfReadCall{idx: idx, ctx: ctx, release: make(chan int)}
		mu.Lock()
		calls = append(calls, c)
		mu.Unlock()
		out := <-c.release
		mu.Lock()
		c.done, c.outcome = true, out
		mu.Unlock()
		switch out {
		case 1:
			return 0, vfErrReplica
		case 2:
			return 0, vfErrTerminal
		case 3:
			return 0, vfErrAborted
		}
		return idx + 1, nil
	}
	cleanup := func(v int) {
		mu.Lock()
		cleaned[v]++
		mu.Unlock()
	}
	ctx, cancel := context.WithCancelCause(context.Background())
	returned := false
	var results []int
	var rerr error
	go func() {
		res, err := DoUntilQuorum(ctx, rs, cfg, f, cleanup)
		mu.Lock()
		returned, results, rerr = true, res, err
		mu.Unlock()
	}()

	okCnt, failCnt := 0, 0
	errKind := -1
	zoneFailed := map[string]bool{}
	terminalSeen := false
	cancelled := false
	ticked := false

	snapshot := func() (bool, []int, error, []*vfReadCall) {
		mu.Lock()
		defer mu.Unlock()
		return returned, append([]int(nil), results...), rerr, append([]*vfReadCall(nil), calls...)
	}

	check := func() {
		ret, res, err, cs := snapshot()
		// each instance called at most once
		seen := map[int]int{}
		for _, c := range cs {
			seen[c.idx]++
			vfAssert(seen[c.idx] == 1, "C11 each instance is called at most once")
		}
		mustFail := false
		if zoneAware {
			mustFail = len(zoneFailed) > tol
		} else {
			mustFail = failCnt > tol
		}
		if terminalSeen && terminalPred {
			mustFail = true
		}
		if mustFail {
			vfAssert(ret, "C11 an error is returned once the tolerated failures are exceeded or a terminal error occurs")
			if ret {
				vfAssert(err != nil, "C11 exceeding the tolerated failures makes the read fail")
			}
		}
		if ret && err == nil {
			// results only from successful calls, each at most once
			used := map[int]bool{}
			for _, v := range res {
				vfAssert(v >= 1 && v <= n && !used[v], "C11 returned results are results of distinct calls")
				used[v] = true
				okCall := false
				for _, c := range cs {
					if c.idx == v-1 && c.done && c.outcome == 0 {
						okCall = true
					}
				}
				vfAssert(okCall, "C11 results are returned only from calls that succeeded")
			}
			if zoneAware {
				// every instance of all but the tolerated number of zones, and only those zones
				zonesUsed := map[string]bool{}
				for v := range used {
					zonesUsed[insts[v-1].Zone] = true
				}
				vfAssert(len(zonesUsed) == nz-tol, "C11 zone-aware: results come from all but the tolerated number of zones")
				for z := range zonesUsed {
					for i := range insts {
						if insts[i].Zone == z {
							vfAssert(used[i+1], "C11 zone-aware: every instance of a contributing zone is included")
						}
					}
					vfAssert(!zoneFailed[z], "C11 zone-aware: results only from zones without failures")
				}
			} else {
				vfAssert(len(res) == n-tol, "C11 results from all but the tolerated number of instances")
			}
		}
		if ret && err != nil && !cancelled {
			vfAssert(mustFail, "C11 an error is returned only when tolerated failures are exceeded, a terminal error occurs or the caller's context ends")
		}
	}

	vfQuiesce()
	// request minimisation: only as many calls as needed are started initially
	_, _, _, started0 := snapshot()
	if cfg.MinimizeRequests {
		if zoneAware {
			zs := map[string]bool{}
			for _, c := range started0 {
				zs[insts[c.idx].Zone] = true
			}
			vfAssert(len(zs) == nz-tol, "C11 minimisation: only the zones needed for quorum are called initially")
		} else {
			vfAssert(len(started0) == n-tol, "C11 minimisation: only the instances needed for quorum are called initially")
		}
	} else {
		vfAssert(len(started0) == n, "C11 without minimisation every instance is called")
	}
	check()
	for step := 0; step < 4*n+4; step++ {
		_, _, _, cs := snapshot()
		var pending []*vfReadCall
		for _, c := range cs {
			if !c.done {
				pending = append(pending, c)
			}
		}
		if len(pending) == 0 {
			break
		}
		nact := len(pending)
		canCancel := !cancelled
		canTick := hedging && !ticked
		if canCancel {
			nact++
		}
		if canTick {
			nact++
		}
		a := vfChoice("action", nact)
		switch {
		case a < len(pending):
			c := pending[a]
			out := vfChoice("outcome", 3)
			if out == 1 && vfParam("abort", 1) == 1 {
				// the kind of error must not matter: ordinary, or wrapping context.Canceled
				if errKind < 0 {
					errKind = vfChoice("errkind", 2)
				}
				if errKind == 1 {
					out = 3
				}
			}
			switch out {
			case 0:
				okCnt++
			case 1, 3:
				failCnt++
				zoneFailed[insts[c.idx].Zone] = true
			case 2:
				failCnt++
				zoneFailed[insts[c.idx].Zone] = true
				mu.Lock()
				ret := returned
				mu.Unlock()
				if !ret {
					terminalSeen = true
				}
			}
			c.release <- out
		case canCancel && a == len(pending):
			cancel(vfErrCancel)
			cancelled = true
		default:
			ticked = true
			vfAdvance(time.Second)
		}
		vfQuiesce()
		if cancelled {
			mu.Lock()
			ret := returned
			mu.Unlock()
			vfAssert(ret, "C11 the read returns once the caller's context has ended")
		}
		check()
	}
	vfQuiesce()
	ret, res, _, cs := snapshot()
	allDone := true
	for _, c := range cs {
		allDone = allDone && c.done
	}
	if allDone {
		vfAssert(ret, "C11 the read has returned once every call has completed")
	}
	if ret {
		used := map[int]bool{}
		for _, v := range res {
			used[v] = true
		}
		mu.Lock()
		for _, c := range cs {
			if c.done && c.outcome == 0 {
				if used[c.idx+1] {
					vfAssert(cleaned[c.idx+1] == 0, "C11 a returned result is not handed to the cleanup callback")
				} else {
					vfAssert(cleaned[c.idx+1] == 1, "C11 every successful result that is not returned is handed to the cleanup callback exactly once")
				}
			}
			if !used[c.idx+1] || !c.done {
				vfAssert(c.ctx.Err() != nil, "C11 the context of every call whose result is not used is cancelled")
			}
		}
		mu.Unlock()
	}
	if !ret {
		cancel(vfErrCancel)
		vfQuiesce()
	}
	vfCover("c11-quorum-done")
}
