//go:build verif

package ring

import (
	"time"

	"github.com/go-kit/log"
)

// C13 - a ring client's answers depend only on the latest ring content, not on
// history. Histories are replaced by one differential step: a long-lived client
// with warm caches observes an arbitrary update and is compared with a client
// freshly built from the new content alone.

func init() {
	vfRegisterBubble("HarnessC13_Step", HarnessC13_Step)
	vfRegisterBubble("HarnessC13_Classify", HarnessC13_Classify)
	vfRegisterBubble("HarnessC13_Lookback", HarnessC13_Lookback)
}

func vfNewRingClient(rf int, zoneAware bool, cacheDisabled bool) *Ring {
	cfg := Config{ReplicationFactor: rf, ZoneAwarenessEnabled: zoneAware, HeartbeatTimeout: time.Minute, SubringCacheDisabled: cacheDisabled}
	r, err := NewWithStoreClientAndStrategy(cfg, "r", "k", nil, NewDefaultReplicationStrategy(), nil, log.NewNopLogger())
	vfAssert(err == nil, "C13 ring client is created")
	return r
}

func vfC13Entry(tag, id string, zoneAware bool, now int64, lean bool) InstanceDesc {
	zone := ""
	if zoneAware {
		zone = vfZones[vfChoice("zone_"+tag, 2)]
	}
	st, ts := ACTIVE, now
	if !lean {
		st = InstanceState(vfI32("st_" + tag + id))
		vfAssume(vfAnd(st >= ACTIVE, st <= JOINING))
		ts = vfI64("ts_" + tag + id)
		vfAssume(vfAnd(ts >= now-(1<<20), ts <= now))
	}
	reg := vfI64("reg_" + tag + id)
	vfAssume(vfAnd(reg >= 1, reg <= now))
	rots := vfI64("rots_" + tag + id)
	vfAssume(vfAnd(rots >= 0, rots <= now))
	return InstanceDesc{Id: id, Addr: "addr-" + id, Zone: zone, State: st, Timestamp: ts, RegisteredTimestamp: reg,
		ReadOnly: vfBool("ro_" + tag + id), ReadOnlyUpdatedTimestamp: rots, Tokens: vfSymTokens("tok_"+tag+id, 1),
		Versions: map[uint64]uint64{1: vfU64("ver_" + tag + id)}}
}

func vfSameVersions(a, b map[uint64]uint64) bool {
	if len(a) != len(b) {
		return false
	}
	res := true
	for k, v := range a {
		w, ok := b[k]
		if !ok {
			return false
		}
		res = vfAnd(res, v == w)
	}
	return res
}

func vfSameFullInstance(a, b InstanceDesc) bool {
	return vfAnd(vfSameInstance(a, b), vfAnd(vfAnd(a.ReadOnly == b.ReadOnly, a.ReadOnlyUpdatedTimestamp == b.ReadOnlyUpdatedTimestamp),
		vfAnd(a.Id == b.Id, vfSameVersions(a.Versions, b.Versions))))
}

func vfSameMembers(a, b ReadRing) bool {
	ma, mb := vfMembers(a), vfMembers(b)
	if len(ma) != len(mb) {
		return false
	}
	res := true
	for id, ia := range ma {
		ib, ok := mb[id]
		if !ok {
			return false
		}
		res = vfAnd(res, vfSameFullInstance(ia, ib))
	}
	return res
}

func vfCloneFull(d *Desc) *Desc {
	c := NewDesc()
	for id, ing := range d.Ingesters {
		ing.Tokens = append([]uint32(nil), ing.Tokens...)
		if ing.Versions != nil {
			v := map[uint64]uint64{}
			for k, x := range ing.Versions {
				v[k] = x
			}
			ing.Versions = v
		}
		c.Ingesters[id] = ing
	}
	return c
}

// vfC13Setup builds the long-lived client (warm caches, then an arbitrary
// update) and a fresh cache-less client on the new content.
// symI0: which aspects of instance i0 are symbolic in the old content
// (0: none, 1: registration/read-only history).
func vfC13Setup(zoneAware bool, symHist bool, warmLookback bool) (old, fresh *Ring, tenant string, size int, lookS int64, now1 int64) {
	now1 = vfEpoch + 100000
	vfSetNow(now1)
	prev := NewDesc()
	for i := 0; i < 2; i++ {
		id := vfIDs[i]
		zone := ""
		if zoneAware {
			zone = vfZones[i%2]
		}
		e := InstanceDesc{Id: id, Addr: "addr-" + id, Zone: zone, State: ACTIVE, Timestamp: now1, RegisteredTimestamp: now1 - 50000,
			Tokens: []uint32{uint32(1000 * (i + 1))}, Versions: map[uint64]uint64{1: 7}}
		if symHist && i < vfParam("hist", 1) {
			e.RegisteredTimestamp = vfI64("reg_" + id)
			vfAssume(vfAnd(e.RegisteredTimestamp >= 1, e.RegisteredTimestamp <= now1))
			e.ReadOnly = vfBool("ro_" + id)
			e.ReadOnlyUpdatedTimestamp = vfI64("rots_" + id)
			vfAssume(vfAnd(e.ReadOnlyUpdatedTimestamp >= 0, e.ReadOnlyUpdatedTimestamp <= now1))
		}
		prev.Ingesters[id] = e
	}
	next := vfCloneFull(prev)
	x := next.Ingesters["i0"]
	switch vfChoice("delta", 11) {
	case 0: // equal descriptors
	case 1: // heartbeat only
		x.Timestamp = vfI64("new_ts")
		vfAssume(vfAnd(x.Timestamp >= now1-(1<<20), x.Timestamp <= now1))
	case 2: // state only
		x.State = InstanceState(vfI32("new_state"))
		vfAssume(vfAnd(x.State >= ACTIVE, x.State <= JOINING))
	case 3: // token change
		x.Tokens = vfSymTokens("new_tok", 1)
	case 4: // zone change
		if zoneAware {
			x.Zone = vfZones[1]
		}
	case 5: // address change
		x.Addr = "addr-moved"
	case 6: // registration time change
		x.RegisteredTimestamp = vfI64("new_reg")
		vfAssume(vfAnd(x.RegisteredTimestamp >= 1, x.RegisteredTimestamp <= now1))
	case 7: // read-only change
		x.ReadOnly = vfBool("new_ro")
		x.ReadOnlyUpdatedTimestamp = vfI64("new_rots")
		vfAssume(vfAnd(x.ReadOnlyUpdatedTimestamp >= 0, x.ReadOnlyUpdatedTimestamp <= now1))
	case 8: // instance added
		zone := ""
		if zoneAware {
			zone = vfZones[vfChoice("zone_new", 2)]
		}
		reg := vfI64("reg_i2")
		vfAssume(vfAnd(reg >= 1, reg <= now1))
		next.Ingesters["i2"] = InstanceDesc{Id: "i2", Addr: "addr-i2", Zone: zone, State: ACTIVE, Timestamp: now1, RegisteredTimestamp: reg,
			Tokens: vfSymTokens("tok_i2", 1), Versions: map[uint64]uint64{1: 7}}
	case 9: // instance removed
		delete(next.Ingesters, "i1")
	case 10: // versions change
		x.Versions = map[uint64]uint64{1: vfU64("new_ver")}
	}
	if _, ok := next.Ingesters["i0"]; ok {
		next.Ingesters["i0"] = x
	}
	vfAssumeDistinctTokens(next)

	if vfC13BlankIDs {
		// ring values written by older lifecyclers carry no Id inside the entries;
		// the client fills it in from the map key
		for _, dd := range []*Desc{prev, next} {
			for id, e := range dd.Ingesters {
				e.Id = ""
				dd.Ingesters[id] = e
			}
		}
	}
	tenant = vfTenants[0]
	size = 1 + vfChoice("size", 2)
	lookS = int64(3600)
	old = vfNewRingClient(2, zoneAware, false)
	old.updateRingState(vfCloneFull(prev))
	// queries served before the update warm the caches
	old.ShuffleShard(tenant, size)
	if warmLookback {
		old.ShuffleShardWithLookback(tenant, size, time.Duration(lookS)*time.Second, time.Unix(now1, 0))
	}
	old.updateRingState(vfCloneFull(next))
	fresh = vfNewRingClient(2, zoneAware, true)
	fresh.updateRingState(vfCloneFull(next))
	return
}

// vfC13BlankIDs: the descriptors handed to the clients have empty Id fields.
var vfC13BlankIDs bool

func HarnessC13_Step() {
	zoneAware := vfChoice("za", 2) == 1
	vfC13BlankIDs = vfChoice("ids_unset", 2) == 1
	defer func() { vfC13BlankIDs = false }()
	old, fresh, tenant, size, _, _ := vfC13Setup(zoneAware, false, false)
	// replica sets
	key := vfU32("key")
	a, errA := old.Get(key, Write, nil, nil, nil)
	b, errB := fresh.Get(key, Write, nil, nil, nil)
	vfAssert((errA == nil) == (errB == nil), "C13 lookups fail or succeed like on a fresh client")
	if errA == nil && errB == nil {
		ids := b.GetIDs()
		vfAssert(vfSameIDSet(a.Instances, ids) && a.MaxErrors == b.MaxErrors, "C13 replica sets equal those of a fresh client")
	}
	// shards, compared as whole instance descriptors
	vfAssert(vfSameMembers(old.ShuffleShard(tenant, size), fresh.ShuffleShard(tenant, size)), "C13 shards equal those of a fresh client")
	// counts
	vfAssert(old.InstancesCount() == fresh.InstancesCount() && old.InstancesWithTokensCount() == fresh.InstancesWithTokensCount() &&
		old.ZonesCount() == fresh.ZonesCount() && old.WritableInstancesWithTokensCount() == fresh.WritableInstancesWithTokensCount(),
		"C13 instance and zone counts equal those of a fresh client")
	vfCover("c13-step-done")
}

// HarnessC13_Lookback: look-back shards at an arbitrary (not monotone) query
// time, with an arbitrary registration / read-only history of the instances.
func HarnessC13_Lookback() {
	zoneAware := vfChoice("za", 2) == 1
	old, fresh, tenant, size, lookS, now1 := vfC13Setup(zoneAware, true, true)
	lookback := time.Duration(lookS) * time.Second
	now2 := vfI64("now2")
	vfAssume(vfAnd(now2 >= now1-2*lookS, now2 <= now1+2*lookS))
	vfAssert(vfSameMembers(old.ShuffleShardWithLookback(tenant, size, lookback, time.Unix(now2, 0)),
		fresh.ShuffleShardWithLookback(tenant, size, lookback, time.Unix(now2, 0))), "C13 look-back shards at any query time equal those of a fresh client")
	vfCover("c13-lookback-done")
}

// HarnessC13_Classify: whenever the comparison says "equal but states and
// timestamps", every derived index equals the one rebuilt from the new content.
func HarnessC13_Classify() {
	zoneAware := vfChoice("za", 2) == 1
	now := vfEpoch
	prev, next := NewDesc(), NewDesc()
	n := 1 + vfChoice("n", 2)
	for i := 0; i < n; i++ {
		prev.Ingesters[vfIDs[i]] = vfC13Entry("p", vfIDs[i], zoneAware, now, false)
		next.Ingesters[vfIDs[i]] = vfC13Entry("q", vfIDs[i], zoneAware, now, false)
	}
	vfAssumeDistinctTokens(prev)
	vfAssumeDistinctTokens(next)
	rc := prev.RingCompare(next)
	if rc != Equal && rc != EqualButStatesAndTimestamps {
		vfCover("c13-classify-different")
		return
	}
	a := vfMkRing(vfCloneFull(prev), 2, zoneAware, time.Minute)
	b := vfMkRing(vfCloneFull(next), 2, zoneAware, time.Minute)
	vfAssert(vfSameTokens(a.ringTokens, b.ringTokens), "C13 skipping the re-index is unobservable: same ring tokens")
	vfAssert(len(a.ringTokensByZone) == len(b.ringTokensByZone) && len(a.ringZones) == len(b.ringZones), "C13 same zones")
	for z, ta := range a.ringTokensByZone {
		vfAssert(vfSameTokens(ta, b.ringTokensByZone[z]), "C13 same tokens by zone")
	}
	for t, ia := range a.ringInstanceByToken {
		ib, ok := b.ringInstanceByToken[t]
		vfAssert(ok && ia.InstanceID == ib.InstanceID && ia.Zone == ib.Zone, "C13 same token owners")
	}
	vfAssert(a.oldestRegisteredTimestamp == b.oldestRegisteredTimestamp, "C13 same oldest registration time")
	vfAssert(*a.readOnlyInstances == *b.readOnlyInstances && *a.oldestReadOnlyUpdatedTimestamp == *b.oldestReadOnlyUpdatedTimestamp, "C13 same read-only summary")
	vfAssert(a.instancesWithTokensCount == b.instancesWithTokensCount && a.writableInstancesWithTokensCount == b.writableInstancesWithTokensCount, "C13 same counters")
	vfCover("c13-classify-equal")
}
