//go:build verif

package ring

import (
	"context"
	"errors"
	"sync"
)

// C10 - batched quorum writes succeed only with quorum on every key, and
// always finish. The replica calls block until a harness-side controller
// completes them one at a time (every completion order, every outcome, context
// cancellation at any point); tolerances are symbolic.

func init() { vfRegisterBubble("HarnessC10_Batch", HarnessC10_Batch) }

var (
	vfErrClient = errors.New("client-class failure")
	vfErrServer = errors.New("server-class failure")
	vfErrCancel = errors.New("caller gave up")
)

type vfBatchRing struct {
	sets  []ReplicationSet // per key index (keys are 0..n-1)
	total int
}

func (r *vfBatchRing) Get(key uint32, _ Operation, _ []InstanceDesc, _, _ []string) (ReplicationSet, error) {
	return r.sets[int(key)], nil
}
func (r *vfBatchRing) ReplicationFactor() int { return 3 }
func (r *vfBatchRing) InstancesCount() int    { return r.total }

type vfBatchCall struct {
	inst    string
	indexes []int
	release chan error
	done    bool
}

func HarnessC10_Batch() {
	nInst := vfParam("inst", 3)
	nKeys := vfChoice("nkeys", vfParam("keys", 2)+1) // 0..keys
	customGo := vfChoice("customgo", 2) == 1
	ring := &vfBatchRing{total: nInst}
	keys := make([]uint32, nKeys)
	maxErr := make([]int, nKeys)
	serves := make([][]bool, nKeys) // serves[k][i]
	for k := 0; k < nKeys; k++ {
		keys[k] = uint32(k)
		mask := 1 + vfChoice("replicas", (1<<nInst)-1)
		var insts []InstanceDesc
		serves[k] = make([]bool, nInst)
		for i := 0; i < nInst; i++ {
			if mask&(1<<i) != 0 {
				serves[k][i] = true
				insts = append(insts, InstanceDesc{Id: vfIDs[i], Addr: vfIDs[i], State: ACTIVE})
			}
		}
		me := vfInt("maxerr")
		vfAssume(vfAnd(me >= 0, me < len(insts)))
		maxErr[k] = me
		ring.sets = append(ring.sets, ReplicationSet{Instances: insts, MaxErrors: me})
	}

	var mu sync.Mutex
	var calls []*vfBatchCall
	completed := 0
	cleanups := 0
	cleanupEarly := false
	callback := func(d InstanceDesc, indexes []int) error {
		c := &vfBatchCall{inst: d.Id, indexes: append([]int(nil), indexes...), release: make(chan error)}
		mu.Lock()
		calls = append(calls, c)
		mu.Unlock()
		err := <-c.release
		mu.Lock()
		c.done = true
		completed++
		mu.Unlock()
		return err
	}
	opts := DoBatchOptions{
		Cleanup: func() {
			mu.Lock()
			cleanups++
			if completed != len(calls) {
				cleanupEarly = true
			}
			mu.Unlock()
		},
		IsClientError: func(err error) bool { return err == vfErrClient },
	}
	if customGo {
		opts.Go = func(f func()) { go f() }
	}
	ctx, cancel := context.WithCancelCause(context.Background())
	returned := false
	returns := 0
	var result error
	go func() {
		err := DoBatchWithOptions(ctx, Write, ring, keys, callback, opts)
		mu.Lock()
		returned, result = true, err
		returns++
		mu.Unlock()
	}()

	// ghost state per key
	oks := make([]int, nKeys)
	cf := make([]int, nKeys)
	sf := make([]int, nKeys)
	answered := make([]int, nKeys)
	nrep := make([]int, nKeys)
	for k := range nrep {
		nrep[k] = len(ring.sets[k].Instances)
	}
	cancelled := false
	sawClient, sawServer := false, false

	check := func() {
		mu.Lock()
		ret, res := returned, result
		mu.Unlock()
		mustFail := false
		allQuorum := true
		for k := 0; k < nKeys; k++ {
			minSuccess := nrep[k] - maxErr[k]
			mustFail = vfOr(mustFail, vfOr(vfOr(cf[k] > maxErr[k], sf[k] > maxErr[k]), vfAnd(answered[k] == nrep[k], oks[k] < minSuccess)))
			allQuorum = vfAnd(allQuorum, oks[k] >= minSuccess)
		}
		if ret && res == nil {
			vfAssert(allQuorum, "C10 success is reported only after every key has been acknowledged by its quorum")
		}
		if mustFail {
			vfAssert(ret, "C10 an error is reported as soon as one error family exceeds a key's tolerance or the key's last replica has answered without quorum")
			if ret {
				vfAssert(res != nil, "C10 a key without quorum makes the batch fail")
				if res != nil && !cancelled {
					vfAssert((res == vfErrClient && sawClient) || (res == vfErrServer && sawServer), "C10 the reported error is one a replica actually returned")
				}
			}
		}
	}

	vfQuiesce()
	// every selected instance is called exactly once with exactly its key indexes
	mu.Lock()
	started := append([]*vfBatchCall(nil), calls...)
	mu.Unlock()
	for i := 0; i < nInst; i++ {
		var want []int
		for k := 0; k < nKeys; k++ {
			if serves[k][i] {
				want = append(want, k)
			}
		}
		n := 0
		for _, c := range started {
			if c.inst == vfIDs[i] {
				n++
				same := len(c.indexes) == len(want)
				for j := range want {
					same = same && j < len(c.indexes) && c.indexes[j] == want[j]
				}
				vfAssert(same, "C10 a replica is called with exactly the indexes of the keys it serves")
			}
		}
		if len(want) > 0 {
			vfAssert(n == 1, "C10 each selected replica is called exactly once")
		} else {
			vfAssert(n == 0, "C10 a replica serving no key is not called")
		}
	}
	check()
	for {
		var pending []*vfBatchCall
		for _, c := range started {
			if !c.done {
				pending = append(pending, c)
			}
		}
		nact := len(pending)
		if !cancelled {
			nact++
		}
		if len(pending) == 0 {
			break
		}
		a := vfChoice("action", nact)
		if a == len(pending) {
			cancel(vfErrCancel)
			cancelled = true
			vfQuiesce()
			mu.Lock()
			ret := returned
			mu.Unlock()
			vfAssert(ret, "C10 the batch returns once the caller's context has ended")
			check()
			continue
		}
		c := pending[a]
		var out error
		switch vfChoice("outcome", 3) {
		case 1:
			out = vfErrClient
			sawClient = true
		case 2:
			out = vfErrServer
			sawServer = true
		}
		for _, k := range c.indexes {
			answered[k]++
			switch out {
			case nil:
				oks[k]++
			case vfErrClient:
				cf[k]++
			default:
				sf[k]++
			}
		}
		c.release <- out
		// with "pair" a second replica call completes before the first one's
		// bookkeeping has run: their record() calls overlap (only meaningful
		// together with a preemption bound)
		if vfParam("pair", 0) == 1 && len(pending) > 1 && vfChoice("pair", 2) == 1 {
			c2 := pending[(a+1+vfChoice("second", len(pending)-1))%len(pending)]
			var out2 error
			switch vfChoice("outcome", 3) {
			case 1:
				out2 = vfErrClient
				sawClient = true
			case 2:
				out2 = vfErrServer
				sawServer = true
			}
			for _, k := range c2.indexes {
				answered[k]++
				switch out2 {
				case nil:
					oks[k]++
				case vfErrClient:
					cf[k]++
				default:
					sf[k]++
				}
			}
			c2.release <- out2
		}
		vfQuiesce()
		check()
	}
	vfQuiesce()
	mu.Lock()
	ret, nret, ncl, early := returned, returns, cleanups, cleanupEarly
	mu.Unlock()
	vfAssert(ret, "C10 the batch returns once all replica calls have returned (also for an empty key list)")
	vfAssert(nret <= 1, "C10 the batch returns exactly once")
	vfAssert(ncl == 1, "C10 the cleanup callback runs exactly once")
	vfAssert(!early, "C10 the cleanup callback runs only after every replica call has finished")
	if !ret {
		cancel(vfErrCancel) // release the blocked caller so that the run can end
		vfQuiesce()
	}
	vfCover("c10-batch-done")
}
