//go:build verif

package cache

import (
	"context"
	"time"

	"github.com/go-kit/log"
)

// C19 - cache wrappers never return wrong, deleted or expired data; versions
// never alias; server placement (jump hash) is stable.

func init() {
	vfRegisterBubble("HarnessC19_Stack", HarnessC19_Stack)
	vfRegisterBubble("HarnessC19_Evict", HarnessC19_Evict)
	vfRegister("HarnessC19_Versions", HarnessC19_Versions)
	vfRegister("HarnessC19_JumpHash", HarnessC19_JumpHash)
}

// vfSpy sits directly above the backend and records when a backend read hit.
type vfSpy struct {
	Cache
	now     *int64 // harness clock (seconds)
	lastHit map[string]int64
}

func (s *vfSpy) GetMultiWithError(ctx context.Context, keys []string, opts ...Option) (map[string][]byte, error) {
	res, err := s.Cache.GetMultiWithError(ctx, keys, opts...)
	for k := range res {
		s.lastHit[k] = *s.now
	}
	return res, err
}

func (s *vfSpy) GetMulti(ctx context.Context, keys []string, opts ...Option) map[string][]byte {
	res, _ := s.GetMultiWithError(ctx, keys, opts...)
	return res
}

var vfValues = [][]byte{[]byte("a"), {}, []byte("abcabcabcabcabcabc"), {0xff, 0x00, 0x7f, 0x80}}
var vfKeys = []string{"k1", "k2"}

type vfModelEntry struct {
	has    bool
	val    int
	storeT int64
	ttl    int64
}

func vfSecs(name string) int64 {
	s := vfI64(name)
	vfAssume(vfAnd(s >= 0, s <= 1<<20))
	return s
}

// HarnessC19_Stack: a sequential client over a stack of the three wrappers on
// the in-process backend, compared with a map-with-expiry model.
func HarnessC19_Stack() {
	nops := vfParam("ops", 3)
	nvals := vfParam("vals", 2)
	lruSize := 1 + vfChoice("lrusize", 2)
	defTTL := vfSecs("default_ttl")
	now := vfEpoch
	vfSetNow(now)
	mock := NewMockCache()
	spy := &vfSpy{Cache: mock, now: &now, lastHit: map[string]int64{}}
	logger := log.NewNopLogger()
	order := vfChoice("stack", vfParam("stacks", 3))
	// wrappers from the backend upwards
	perms := [][]byte{{'S', 'V', 'L'}, {'S', 'L', 'V'}, {'L', 'V', 'S'}, {'V', 'S', 'L'}, {'L', 'S', 'V'}, {'V', 'L', 'S'}}
	mkStack := func() Cache {
		var c Cache = spy
		for _, w := range perms[order] {
			switch w {
			case 'S':
				c = NewSnappy(c, logger)
			case 'V':
				c = NewVersioned(c, 1, logger)
			case 'L':
				l, err := WrapWithLRUCache(c, "t", nil, lruSize, time.Duration(defTTL)*time.Second, logger)
				vfAssert(err == nil, "C19 LRU wrapper is created")
				c = l
			}
		}
		return c
	}
	ctx := context.Background()
	model := map[string]*vfModelEntry{"k1": {}, "k2": {}}
	store := func(k string, v int, ttl int64) {
		model[k] = &vfModelEntry{has: true, val: v, storeT: now, ttl: ttl}
		// a new value invalidates what the in-memory layer may have loaded before
		delete(spy.lastHit, "1@"+k)
	}
	c := mkStack()
	// optionally the shared backend already holds both keys (stored through an
	// earlier incarnation of the same stack) while the in-memory layer of the
	// stack under test starts empty: a process restart
	if pf := vfParam("prefill", 0); pf == 2 || (pf == 1 && vfChoice("prefill", 2) == 1) {
		v1, v2, ttl := vfChoice("val", nvals), vfChoice("val", nvals), vfSecs("ttl")
		c.SetMultiAsync(map[string][]byte{"k1": vfValues[v1], "k2": vfValues[v2]}, time.Duration(ttl)*time.Second)
		store("k1", v1, ttl)
		store("k2", v2, ttl)
		c = mkStack()
	}
	for i := 0; i < nops; i++ {
		switch vfChoice("op", 7) {
		case 0:
			k, v, ttl := vfKeys[vfChoice("key", 2)], vfChoice("val", nvals), vfSecs("ttl")
			err := c.Set(ctx, k, vfValues[v], time.Duration(ttl)*time.Second)
			vfAssert(err == nil, "C19 Set on the in-process backend succeeds")
			store(k, v, ttl)
		case 1:
			k, v, ttl := vfKeys[vfChoice("key", 2)], vfChoice("val", nvals), vfSecs("ttl")
			if err := c.Add(ctx, k, vfValues[v], time.Duration(ttl)*time.Second); err == nil {
				store(k, v, ttl)
			} else {
				vfAssert(err == ErrNotStored, "C19 Add fails only with ErrNotStored")
			}
		case 2:
			k, v, ttl := vfKeys[vfChoice("key", 2)], vfChoice("val", nvals), vfSecs("ttl")
			c.SetAsync(k, vfValues[v], time.Duration(ttl)*time.Second)
			store(k, v, ttl)
		case 3:
			v1, v2, ttl := vfChoice("val", nvals), vfChoice("val", nvals), vfSecs("ttl")
			c.SetMultiAsync(map[string][]byte{"k1": vfValues[v1], "k2": vfValues[v2]}, time.Duration(ttl)*time.Second)
			store("k1", v1, ttl)
			store("k2", v2, ttl)
		case 4:
			res := c.GetMulti(ctx, []string{"k1", "k2"})
			vfAssert(len(res) <= 2, "C19 GetMulti returns only requested keys")
			for k, data := range res {
				m := model[k]
				vfAssert(m != nil && m.has, "C19 a read never yields an entry that was never stored or was deleted")
				if m == nil || !m.has {
					return
				}
				vfAssert(string(data) == string(vfValues[m.val]), "C19 a read yields the most recently stored value, byte for byte")
				alive := now < m.storeT+m.ttl
				if lh, ok := spy.lastHit["1@"+k]; ok {
					alive = vfOr(alive, now < lh+defTTL)
				}
				vfAssert(alive, "C19 a read never yields an entry after the later of its time-to-live and the in-memory default retention")
				vfCover("c19-stack-hit")
			}
		case 5:
			k := vfKeys[vfChoice("key", 2)]
			vfAssert(c.Delete(ctx, k) == nil, "C19 Delete succeeds")
			model[k] = &vfModelEntry{}
			delete(spy.lastHit, "1@"+k)
		case 6:
			d := vfSecs("advance")
			mock.Advance(time.Duration(d) * time.Second)
			vfAdvance(time.Duration(d) * time.Second)
			now += d
		}
	}
	vfCover("c19-stack-done")
}

// HarnessC19_Versions: keys written under different versions never alias and
// the version round trip is the identity.
func HarnessC19_Versions() {
	versions := []uint{1, 2, 10, 11, 12}
	va := versions[vfChoice("va", len(versions))]
	vb := versions[vfChoice("vb", len(versions))]
	ka := vfStr("ka", vfChoice("la", vfParam("len", 3)+1))
	kb := vfStr("kb", vfChoice("lb", vfParam("len", 3)+1))
	a := NewVersioned(NewMockCache(), va, log.NewNopLogger())
	b := NewVersioned(NewMockCache(), vb, log.NewNopLogger())
	ba, bb := a.addVersion(ka), b.addVersion(kb)
	vfAssert(a.removeVersion(ba) == ka, "C19 version round trip is the identity")
	if ba == bb {
		vfAssert(va == vb && ka == kb, "C19 different (version, key) pairs never map to one backend key")
		vfCover("c19-versions-same")
	} else {
		vfCover("c19-versions-differ")
	}
}

// HarnessC19_JumpHash: the bucket is in range and appending one bucket moves a
// key only to the new bucket, if at all.
func HarnessC19_JumpHash() {
	n := 1 + vfChoice("n", vfParam("n", 4))
	key := vfU64("key")
	b1 := jumpHash(key, n)
	b2 := jumpHash(key, n+1)
	vfObserve("b1", b1)
	vfObserve("b2", b2)
	vfAssert(vfAnd(b1 >= 0, int(b1) < n), "C19 jump hash result is in [0, n)")
	vfAssert(vfAnd(b2 >= 0, int(b2) < n+1), "C19 jump hash result is in [0, n+1)")
	vfAssert(vfOr(b2 == b1, int(b2) == n), "C19 appending one server moves a key only to the new server, if at all")
	vfCover("c19-jump-done")
}


// HarnessC19_Evict: the shared backend may lose an entry at any time (memcached
// evicts) while the in-memory layer still holds it. Scenario skeleton with
// symbolic TTLs: store, backend eviction, a second store operation of any kind,
// time passes, read - the read never yields anything but the most recently
// stored value.
func HarnessC19_Evict() {
	lruSize := 1 + vfChoice("lrusize", 2)
	defTTL := vfSecs("default_ttl")
	now := vfEpoch
	vfSetNow(now)
	mock := NewMockCache()
	logger := log.NewNopLogger()
	order := vfChoice("stack", vfParam("stacks", 3))
	perms := [][]byte{{'S', 'V', 'L'}, {'S', 'L', 'V'}, {'L', 'V', 'S'}, {'V', 'S', 'L'}, {'L', 'S', 'V'}, {'V', 'L', 'S'}}
	var c Cache = mock
	var below Cache // what sits directly below the in-memory layer
	for _, w := range perms[order] {
		switch w {
		case 'S':
			c = NewSnappy(c, logger)
		case 'V':
			c = NewVersioned(c, 1, logger)
		case 'L':
			below = c
			l, err := WrapWithLRUCache(c, "t", nil, lruSize, time.Duration(defTTL)*time.Second, logger)
			vfAssert(err == nil, "C19 LRU wrapper is created")
			c = l
		}
	}
	_ = below
	ctx := context.Background()
	ttl1, ttl2 := vfSecs("ttl1"), vfSecs("ttl2")
	vfAssert(c.Set(ctx, "k1", vfValues[0], time.Duration(ttl1)*time.Second) == nil, "C19 Set succeeds")
	last, lastT, lastTTL := 0, now, ttl1
	if vfChoice("other_key", 2) == 1 {
		vfAssert(c.Set(ctx, "k2", vfValues[2], time.Hour) == nil, "C19 Set succeeds")
	}
	// the backend loses everything it holds (eviction / restart of the cache server)
	if vfChoice("evict", 2) == 1 {
		mock.Flush()
	}
	stored := true
	switch vfChoice("second_op", 4) {
	case 0:
		if err := c.Add(ctx, "k1", vfValues[3], time.Duration(ttl2)*time.Second); err == nil {
			last, lastT, lastTTL = 3, now, ttl2
		} else {
			vfAssert(err == ErrNotStored, "C19 Add fails only with ErrNotStored")
		}
	case 1:
		vfAssert(c.Set(ctx, "k1", vfValues[3], time.Duration(ttl2)*time.Second) == nil, "C19 Set succeeds")
		last, lastT, lastTTL = 3, now, ttl2
	case 2:
		c.SetAsync("k1", vfValues[3], time.Duration(ttl2)*time.Second)
		last, lastT, lastTTL = 3, now, ttl2
	case 3:
		vfAssert(c.Delete(ctx, "k1") == nil, "C19 Delete succeeds")
		stored = false
	}
	d := vfSecs("advance")
	mock.Advance(time.Duration(d) * time.Second)
	vfAdvance(time.Duration(d) * time.Second)
	now += d
	res := c.GetMulti(ctx, []string{"k1"})
	if data, ok := res["k1"]; ok {
		vfAssert(stored, "C19 a read never yields a deleted entry")
		vfAssert(string(data) == string(vfValues[last]), "C19 a read yields the most recently stored value also after the backend lost its copy")
		vfAssert(now < lastT+lastTTL, "C19 a read never yields an entry after its time-to-live (no back-fill happened)")
		vfCover("c19-evict-hit")
	}
	vfCover("c19-evict-done")
}

func init() { vfRegister("HarnessC19_Aliasing", HarnessC19_Aliasing) }

// HarnessC19_Aliasing: values stored under two keys one after the other, by any
// pair of write operations, through every stacking order of the wrappers, with
// symbolic bytes of equal length (so that a buffer reused between the two
// writes would still decode): each key reads back its own bytes. sync.Pool
// hands back the most recently returned object (engine model), as the runtime
// does for a goroutine that stays on its P.
func HarnessC19_Aliasing() {
	n := 1 + vfChoice("len", vfParam("len", 3))
	v1, v2 := vfBytes("v1", n), vfBytes("v2", n)
	mock := NewMockCache()
	logger := log.NewNopLogger()
	perms := [][]byte{{'S', 'V', 'L'}, {'S', 'L', 'V'}, {'L', 'V', 'S'}, {'V', 'S', 'L'}, {'L', 'S', 'V'}, {'V', 'L', 'S'}, {'S'}, {'V', 'S'}}
	var c Cache = mock
	for _, w := range perms[vfChoice("stack", len(perms))] {
		switch w {
		case 'S':
			c = NewSnappy(c, logger)
		case 'V':
			c = NewVersioned(c, 1, logger)
		case 'L':
			l, err := WrapWithLRUCache(c, "t", nil, 2, time.Hour, logger)
			vfAssert(err == nil, "C19 LRU wrapper is created")
			c = l
		}
	}
	ctx := context.Background()
	write := func(k string, v []byte) {
		switch vfChoice("write", 4) {
		case 0:
			vfAssert(c.Set(ctx, k, v, time.Hour) == nil, "C19 Set on the in-process backend succeeds")
		case 1:
			vfAssert(c.Add(ctx, k, v, time.Hour) == nil, "C19 Add of an absent key succeeds")
		case 2:
			c.SetAsync(k, v, time.Hour)
		case 3:
			c.SetMultiAsync(map[string][]byte{k: v}, time.Hour)
		}
	}
	write("k1", v1)
	write("k2", v2)
	res := c.GetMulti(ctx, []string{"k1", "k2"})
	for k, want := range map[string][]byte{"k1": v1, "k2": v2} {
		got, ok := res[k]
		vfAssert(ok, "C19 a value just stored in the in-process backend is found")
		if ok {
			same := len(got) == len(want)
			if same {
				for i := range want {
					same = vfAnd(same, got[i] == want[i])
				}
			}
			vfAssert(same, "C19 each key reads back the bytes stored under it, byte for byte")
		}
	}
	vfCover("c19-aliasing-done")
}
