//go:build verif

package modules

import (
	"github.com/go-kit/log"

	"github.com/grafana/dskit/services"
)

// C18 - modules initialise in dependency order for every graph; a dependency
// that would close a cycle is rejected. The graph is a matrix of solver
// booleans (one per ordered pair, self-pairs included): every path is concrete,
// so this is exhaustive enumeration of the bounded graph space carried out by
// the symbolic executor.

func init() { vfRegister("HarnessC18_InitOrder", HarnessC18_InitOrder) }

var vfMods = []string{"m0", "m1", "m2", "m3", "m4", "m5", "m6", "m7"}

func HarnessC18_InitOrder() {
	n := vfParam("mods", 3)
	m := NewManager(log.NewNopLogger())
	var order []string
	for i := 0; i < n; i++ {
		name := vfMods[i]
		m.RegisterModule(name, func() (services.Service, error) {
			order = append(order, name)
			return nil, nil
		})
	}
	// ghost adjacency: adj[i][j] = i depends on j
	adj := make([][]bool, n)
	for i := range adj {
		adj[i] = make([]bool, n)
	}
	reach := func(from, to int) bool { // path from -> to in the ghost graph (length >= 0)
		seen := make([]bool, n)
		stack := []int{from}
		for len(stack) > 0 {
			x := stack[len(stack)-1]
			stack = stack[:len(stack)-1]
			if x == to {
				return true
			}
			if seen[x] {
				continue
			}
			seen[x] = true
			for y := 0; y < n; y++ {
				if adj[x][y] {
					stack = append(stack, y)
				}
			}
		}
		return false
	}
	for i := 0; i < n; i++ {
		for j := 0; j < n; j++ {
			if !vfBool("edge") {
				continue
			}
			err := m.AddDependency(vfMods[i], vfMods[j])
			closesCycle := reach(j, i) // includes i == j
			if closesCycle {
				vfAssert(err != nil, "C18 adding a dependency that would close a cycle is rejected")
				if err == nil {
					return
				}
			} else {
				vfAssert(err == nil, "C18 a dependency that keeps the graph acyclic is accepted")
				adj[i][j] = true
			}
		}
	}
	var targets []string
	needed := make([]bool, n)
	for i := 0; i < n; i++ {
		if vfBool("target") {
			targets = append(targets, vfMods[i])
			for j := 0; j < n; j++ {
				if reach(i, j) {
					needed[j] = true
				}
			}
		}
	}
	_, err := m.InitModuleServices(targets...)
	vfAssert(err == nil, "C18 initialisation of an acyclic graph succeeds")
	vfObserve("order", order)
	pos := make([]int, n)
	cnt := make([]int, n)
	for p, name := range order {
		for i := 0; i < n; i++ {
			if vfMods[i] == name {
				pos[i] = p
				cnt[i]++
			}
		}
	}
	for i := 0; i < n; i++ {
		if needed[i] {
			vfAssert(cnt[i] == 1, "C18 every needed module is initialised exactly once")
			for j := 0; j < n; j++ {
				if i != j && reach(i, j) && cnt[i] == 1 && cnt[j] == 1 {
					vfAssert(pos[j] < pos[i], "C18 a module is initialised after all modules it depends on")
				}
			}
		} else {
			vfAssert(cnt[i] == 0, "C18 modules that are not needed are not initialised")
		}
	}
	vfCover("c18-init-done")
}

func init() { vfRegister("HarnessC18_DagServices", HarnessC18_DagServices) }

// HarnessC18_DagServices: every forward-edge DAG on n modules whose init
// functions return services (so that the service wrappers, which query the
// transitive and inverse dependencies, are built), initialised twice: the
// stored dependency lists must not be disturbed by queries, and both
// initialisations must respect the dependency order.
func HarnessC18_DagServices() {
	n := vfParam("mods", 4)
	m := NewManager(log.NewNopLogger())
	var order []string
	for i := 0; i < n; i++ {
		name := vfMods[i]
		m.RegisterModule(name, func() (services.Service, error) {
			order = append(order, name)
			return services.NewIdleService(nil, nil), nil
		})
	}
	adj := make([][]bool, n)
	for i := range adj {
		adj[i] = make([]bool, n)
	}
	var reach func(from, to int) bool
	reach = func(from, to int) bool {
		if from == to {
			return true
		}
		for y := 0; y < n; y++ {
			if adj[from][y] && reach(y, to) {
				return true
			}
		}
		return false
	}
	// edges i -> j only for i < j (acyclic by construction), each added by its
	// own AddDependency call, in an order that lets later modules gain
	// dependencies after earlier ones already point at them
	for j := n - 1; j >= 1; j-- {
		for i := 0; i < j; i++ {
			if vfBool("edge") {
				vfAssert(m.AddDependency(vfMods[i], vfMods[j]) == nil, "C18 a dependency that keeps the graph acyclic is accepted")
				adj[i][j] = true
			}
		}
	}
	for round := 0; round < 2; round++ {
		order = nil
		svcs, err := m.InitModuleServices(vfMods[0])
		vfAssert(err == nil, "C18 initialisation of an acyclic graph succeeds")
		pos := make([]int, n)
		cnt := make([]int, n)
		for p, name := range order {
			for i := 0; i < n; i++ {
				if vfMods[i] == name {
					pos[i] = p
					cnt[i]++
				}
			}
		}
		needed := 0
		for i := 0; i < n; i++ {
			if reach(0, i) {
				needed++
				vfAssert(cnt[i] == 1, "C18 every needed module is initialised exactly once (also on a later initialisation)")
				for j := 0; j < n; j++ {
					if i != j && reach(i, j) && cnt[i] == 1 && cnt[j] == 1 {
						vfAssert(pos[j] < pos[i], "C18 a module is initialised after all modules it depends on")
					}
				}
			} else {
				vfAssert(cnt[i] == 0, "C18 modules that are not needed are not initialised")
			}
		}
		vfAssert(len(svcs) == needed, "C18 one service per needed module")
		// a dependency that would close a cycle is still rejected after the queries
		for i := 1; i < n; i++ {
			if reach(0, i) {
				vfAssert(m.AddDependency(vfMods[i], vfMods[0]) != nil, "C18 adding a dependency that would close a cycle is rejected")
			}
		}
	}
	vfCover("c18-dag-done")
}
