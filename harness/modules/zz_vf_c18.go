//go:build verif

package modules

import (
	"github.com/go-kit/log"

	"github.com/grafana/dskit/services"
)

// C18 - modules initialise in dependency order for every graph; a dependency
// that would close a cycle is rejected. The graph is a matrix of solver
// booleans (one per ordered pair, self-pairs included): every path is concrete,
// so this is exhaustive enumeration of the bounded graph space carried out by
// the symbolic executor.

func init() { vfRegister("HarnessC18_InitOrder", HarnessC18_InitOrder) }

var vfMods = []string{"m0", "m1", "m2", "m3", "m4"}

func HarnessC18_InitOrder() {
	n := vfParam("mods", 3)
	m := NewManager(log.NewNopLogger())
	var order []string
	for i := 0; i < n; i++ {
		name := vfMods[i]
		m.RegisterModule(name, func() (services.Service, error) {
			order = append(order, name)
			return nil, nil
		})
	}
	// ghost adjacency: adj[i][j] = i depends on j
	adj := make([][]bool, n)
	for i := range adj {
		adj[i] = make([]bool, n)
	}
	reach := func(from, to int) bool { // path from -> to in the ghost graph (length >= 0)
		seen := make([]bool, n)
		stack := []int{from}
		for len(stack) > 0 {
			x := stack[len(stack)-1]
			stack = stack[:len(stack)-1]
			if x == to {
				return true
			}
			if seen[x] {
				continue
			}
			seen[x] = true
			for y := 0; y < n; y++ {
				if adj[x][y] {
					stack = append(stack, y)
				}
			}
		}
		return false
	}
	for i := 0; i < n; i++ {
		for j := 0; j < n; j++ {
			if !vfBool("edge") {
				continue
			}
			err := m.AddDependency(vfMods[i], vfMods[j])
			closesCycle := reach(j, i) // includes i == j
			if closesCycle {
				vfAssert(err != nil, "C18 adding a dependency that would close a cycle is rejected")
				if err == nil {
					return
				}
			} else {
				vfAssert(err == nil, "C18 a dependency that keeps the graph acyclic is accepted")
				adj[i][j] = true
			}
		}
	}
	var targets []string
	needed := make([]bool, n)
	for i := 0; i < n; i++ {
		if vfBool("target") {
			targets = append(targets, vfMods[i])
			for j := 0; j < n; j++ {
				if reach(i, j) {
					needed[j] = true
				}
			}
		}
	}
	_, err := m.InitModuleServices(targets...)
	vfAssert(err == nil, "C18 initialisation of an acyclic graph succeeds")
	vfObserve("order", order)
	pos := make([]int, n)
	cnt := make([]int, n)
	for p, name := range order {
		for i := 0; i < n; i++ {
			if vfMods[i] == name {
				pos[i] = p
				cnt[i]++
			}
		}
	}
	for i := 0; i < n; i++ {
		if needed[i] {
			vfAssert(cnt[i] == 1, "C18 every needed module is initialised exactly once")
			for j := 0; j < n; j++ {
				if i != j && reach(i, j) && cnt[i] == 1 && cnt[j] == 1 {
					vfAssert(pos[j] < pos[i], "C18 a module is initialised after all modules it depends on")
				}
			}
		} else {
			vfAssert(cnt[i] == 0, "C18 modules that are not needed are not initialised")
		}
	}
	vfCover("c18-init-done")
}
