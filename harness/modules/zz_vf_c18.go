//go:build verif

package modules

import (
	"context"

	"github.com/go-kit/log"

	"github.com/grafana/dskit/services"
)

// C18 - modules initialise in dependency order for every graph; a dependency
// that would close a cycle is rejected. The graph is a matrix of solver
// booleans (one per ordered pair, self-pairs included): every path is concrete,
// so this is exhaustive enumeration of the bounded graph space carried out by
// the symbolic executor.

func init() { vfRegister("HarnessC18_InitOrder", HarnessC18_InitOrder) }

var vfMods = []string{"m0", "m1", "m2", "m3", "m4", "m5", "m6", "m7"}

func HarnessC18_InitOrder() {
	n := vfParam("mods", 3)
	m := NewManager(log.NewNopLogger())
	var order []string
	for i := 0; i < n; i++ {
		name := vfMods[i]
		m.RegisterModule(name, func() (services.Service, error) {
			order = append(order, name)
			return nil, nil
		})
	}
	// ghost adjacency: adj[i][j] = i depends on j
	adj := make([][]bool, n)
	for i := range adj {
		adj[i] = make([]bool, n)
	}
	reach := func(from, to int) bool { // path from -> to in the ghost graph (length >= 0)
		seen := make([]bool, n)
		stack := []int{from}
		for len(stack) > 0 {
			x := stack[len(stack)-1]
			stack = stack[:len(stack)-1]
			if x == to {
				return true
			}
			if seen[x] {
				continue
			}
			seen[x] = true
			for y := 0; y < n; y++ {
				if adj[x][y] {
					stack = append(stack, y)
				}
			}
		}
		return false
	}
	for i := 0; i < n; i++ {
		for j := 0; j < n; j++ {
			if !vfBool("edge") {
				continue
			}
			err := m.AddDependency(vfMods[i], vfMods[j])
			closesCycle := reach(j, i) // includes i == j
			if closesCycle {
				vfAssert(err != nil, "C18 adding a dependency that would close a cycle is rejected")
				if err == nil {
					return
				}
			} else {
				vfAssert(err == nil, "C18 a dependency that keeps the graph acyclic is accepted")
				adj[i][j] = true
			}
		}
	}
	var targets []string
	needed := make([]bool, n)
	for i := 0; i < n; i++ {
		if vfBool("target") {
			targets = append(targets, vfMods[i])
			for j := 0; j < n; j++ {
				if reach(i, j) {
					needed[j] = true
				}
			}
		}
	}
	_, err := m.InitModuleServices(targets...)
	vfAssert(err == nil, "C18 initialisation of an acyclic graph succeeds")
	vfObserve("order", order)
	pos := make([]int, n)
	cnt := make([]int, n)
	for p, name := range order {
		for i := 0; i < n; i++ {
			if vfMods[i] == name {
				pos[i] = p
				cnt[i]++
			}
		}
	}
	for i := 0; i < n; i++ {
		if needed[i] {
			vfAssert(cnt[i] == 1, "C18 every needed module is initialised exactly once")
			for j := 0; j < n; j++ {
				if i != j && reach(i, j) && cnt[i] == 1 && cnt[j] == 1 {
					vfAssert(pos[j] < pos[i], "C18 a module is initialised after all modules it depends on")
				}
			}
		} else {
			vfAssert(cnt[i] == 0, "C18 modules that are not needed are not initialised")
		}
	}
	vfCover("c18-init-done")
}

func init() { vfRegister("HarnessC18_DagServices", HarnessC18_DagServices) }

// HarnessC18_DagServices: every forward-edge DAG on n modules whose init
// functions return services (so that the service wrappers, which query the
// transitive and inverse dependencies, are built), initialised twice: the
// stored dependency lists must not be disturbed by queries, and both
// initialisations must respect the dependency order.
func HarnessC18_DagServices() {
	n := vfParam("mods", 4)
	m := NewManager(log.NewNopLogger())
	var order []string
	for i := 0; i < n; i++ {
		name := vfMods[i]
		m.RegisterModule(name, func() (services.Service, error) {
			order = append(order, name)
			return services.NewIdleService(nil, nil), nil
		})
	}
	adj := make([][]bool, n)
	for i := range adj {
		adj[i] = make([]bool, n)
	}
	var reach func(from, to int) bool
	reach = func(from, to int) bool {
		if from == to {
			return true
		}
		for y := 0; y < n; y++ {
			if adj[from][y] && reach(y, to) {
				return true
			}
		}
		return false
	}
	// edges i -> j only for i < j (acyclic by construction), each added by its
	// own AddDependency call, in an order that lets later modules gain
	// dependencies after earlier ones already point at them
	for j := n - 1; j >= 1; j-- {
		for i := 0; i < j; i++ {
			if vfBool("edge") {
				vfAssert(m.AddDependency(vfMods[i], vfMods[j]) == nil, "C18 a dependency that keeps the graph acyclic is accepted")
				adj[i][j] = true
			}
		}
	}
	for round := 0; round < 2; round++ {
		order = nil
		svcs, err := m.InitModuleServices(vfMods[0])
		vfAssert(err == nil, "C18 initialisation of an acyclic graph succeeds")
		pos := make([]int, n)
		cnt := make([]int, n)
		for p, name := range order {
			for i := 0; i < n; i++ {
				if vfMods[i] == name {
					pos[i] = p
					cnt[i]++
				}
			}
		}
		needed := 0
		for i := 0; i < n; i++ {
			if reach(0, i) {
				needed++
				vfAssert(cnt[i] == 1, "C18 every needed module is initialised exactly once (also on a later initialisation)")
				for j := 0; j < n; j++ {
					if i != j && reach(i, j) && cnt[i] == 1 && cnt[j] == 1 {
						vfAssert(pos[j] < pos[i], "C18 a module is initialised after all modules it depends on")
					}
				}
			} else {
				vfAssert(cnt[i] == 0, "C18 modules that are not needed are not initialised")
			}
		}
		vfAssert(len(svcs) == needed, "C18 one service per needed module")
		// a dependency that would close a cycle is still rejected after the queries
		for i := 1; i < n; i++ {
			if reach(0, i) {
				vfAssert(m.AddDependency(vfMods[i], vfMods[0]) != nil, "C18 adding a dependency that would close a cycle is rejected")
			}
		}
	}
	vfCover("c18-dag-done")
}

func init() { vfRegisterBubble("HarnessC18_Runtime", HarnessC18_Runtime) }

// vfC18Err: a start failure; optionally one that wraps context.Canceled (a
// service whose own start-up was aborted reports such an error although the
// dependant's context is alive).
type vfC18Err struct{ cancelled bool }

func (vfC18Err) Error() string { return "start failed" }
func (e vfC18Err) Unwrap() error {
	if e.cancelled {
		return context.Canceled
	}
	return nil
}

// HarnessC18_Runtime: the run-time half. Every forward-edge DAG on n modules;
// each module may or may not have a service; each service's starting function
// blocks on a gate the controller opens (in every order), and fails or not (a
// solver boolean); shutdown is requested at any point (also while services are
// still starting), with the wrappers asked to stop in either order; stopping
// functions block on gates as well. Asserted inside the functions themselves:
// a service starts only while every (transitive) dependency's service is
// running; its stopping function runs only when every dependant's service has
// terminated. After start-up: dependants of a failed dependency were never
// started and their wrappers failed. At the end nothing is left blocked.
func HarnessC18_Runtime() {
	n := vfParam("mods", 3)
	m := NewManager(log.NewNopLogger())
	adj := make([][]bool, n)
	for i := range adj {
		adj[i] = make([]bool, n)
	}
	var reach func(from, to int) bool
	reach = func(from, to int) bool {
		if from == to {
			return true
		}
		for y := 0; y < n; y++ {
			if adj[from][y] && reach(y, to) {
				return true
			}
		}
		return false
	}
	hasSvc := make([]bool, n)
	failStart := make([]bool, n)
	failCancelled := make([]bool, n)
	startGate := make([]chan struct{}, n)
	stopGate := make([]chan struct{}, n)
	started := make([]bool, n)
	startOpen := make([]bool, n)
	stopBegun := make([]bool, n)
	stopOpen := make([]bool, n)
	inner := make([]services.Service, n)
	isDown := func(s services.Service) bool {
		st := s.State()
		return st == services.New || st == services.Terminated || st == services.Failed
	}
	for i := 0; i < n; i++ {
		i := i
		hasSvc[i] = i == 0 || vfBool("has_service")
		if hasSvc[i] {
			failStart[i] = vfBool("fail_start")
			if failStart[i] {
				failCancelled[i] = vfBool("fail_wraps_cancelled")
			}
		}
		startGate[i] = make(chan struct{})
		stopGate[i] = make(chan struct{})
		m.RegisterModule(vfMods[i], func() (services.Service, error) {
			if !hasSvc[i] {
				return nil, nil
			}
			inner[i] = services.NewBasicService(
				func(_ context.Context) error {
					started[i] = true
					for j := 0; j < n; j++ {
						if j != i && reach(i, j) && hasSvc[j] {
							vfAssert(inner[j] != nil && inner[j].State() == services.Running, "C18 a module's service starts only after all its dependencies are running")
						}
					}
					<-startGate[i]
					if failStart[i] {
						return vfC18Err{cancelled: failCancelled[i]}
					}
					return nil
				},
				func(ctx context.Context) error {
					<-ctx.Done()
					return nil
				},
				func(_ error) error {
					stopBegun[i] = true
					for k := 0; k < n; k++ {
						if k != i && reach(k, i) && hasSvc[k] && inner[k] != nil {
							vfAssert(isDown(inner[k]), "C18 a module's service is stopped only after every module depending on it has stopped")
						}
					}
					<-stopGate[i]
					return nil
				})
			return inner[i], nil
		})
	}
	for j := n - 1; j >= 1; j-- {
		for i := 0; i < j; i++ {
			if vfBool("edge") {
				vfAssert(m.AddDependency(vfMods[i], vfMods[j]) == nil, "C18 a dependency that keeps the graph acyclic is accepted")
				adj[i][j] = true
			}
		}
	}
	svcs, err := m.InitModuleServices(vfMods[0])
	vfAssert(err == nil, "C18 initialisation of an acyclic graph succeeds")
	if err != nil {
		return
	}
	var wr []services.Service
	var widx []int
	for i := 0; i < n; i++ {
		if s := svcs[vfMods[i]]; s != nil {
			wr = append(wr, s)
			widx = append(widx, i)
		}
	}
	ctx := context.Background()
	if vfChoice("start_order", 2) == 0 {
		for _, s := range wr {
			vfAssert(s.StartAsync(ctx) == nil, "C18 wrapper accepts the start request")
		}
	} else {
		for x := len(wr) - 1; x >= 0; x-- {
			vfAssert(wr[x].StartAsync(ctx) == nil, "C18 wrapper accepts the start request")
		}
	}
	shutdown := false
	early := false
	requestStop := func() {
		shutdown = true
		if vfChoice("stop_order", 2) == 0 {
			for _, s := range wr {
				s.StopAsync()
			}
		} else {
			for x := len(wr) - 1; x >= 0; x-- {
				wr[x].StopAsync()
			}
		}
	}
	for step := 0; step < 4*n+2; step++ {
		vfQuiesce()
		var pend []int // 2*i = start gate of i, 2*i+1 = stop gate of i
		for i := 0; i < n; i++ {
			if started[i] && !startOpen[i] {
				pend = append(pend, 2*i)
			}
			if stopBegun[i] && !stopOpen[i] {
				pend = append(pend, 2*i+1)
			}
		}
		opts := len(pend)
		if !shutdown {
			opts++ // request shutdown now
		}
		if opts == 0 {
			break
		}
		c := 0
		if opts > 1 {
			c = vfChoice("next", opts)
		}
		if c == len(pend) {
			if len(pend) > 0 {
				early = true
			} else {
				// start-up is complete: check who runs and who failed
				for x, i := range widx {
					depFailed := false
					for j := 0; j < n; j++ {
						if j != i && reach(i, j) && hasSvc[j] && failStart[j] {
							depFailed = true
						}
					}
					st := wr[x].State()
					if depFailed {
						vfAssert(!started[i], "C18 dependants of a dependency that failed to start are not started")
						vfAssert(st == services.Failed, "C18 dependants of a dependency that failed to start fail as well")
					} else if failStart[i] {
						vfAssert(st == services.Failed, "C18 a module whose service fails to start is failed")
					} else {
						vfAssert(st == services.Running && inner[i].State() == services.Running, "C18 a module whose dependencies all run is running after start-up")
					}
				}
				vfCover("c18-rt-started")
			}
			requestStop()
			continue
		}
		g := pend[c]
		if g%2 == 0 {
			startOpen[g/2] = true
			close(startGate[g/2])
		} else {
			stopOpen[g/2] = true
			close(stopGate[g/2])
		}
	}
	vfQuiesce()
	vfAssert(shutdown, "C18 harness reached shutdown")
	for x, i := range widx {
		st := wr[x].State()
		vfAssert(st == services.Terminated || st == services.Failed, "C18 every module service ends terminated or failed after shutdown")
		vfAssert(isDown(inner[i]), "C18 every wrapped service is down after shutdown")
	}
	_ = early
	vfAssert(vfBlockedThreads() == 0, "C18 nothing is left blocked after shutdown")
	vfCover("c18-rt-done")
}
