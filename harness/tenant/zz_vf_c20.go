//go:build verif

package tenant

import (
	"context"

	"github.com/grafana/dskit/user"
)

// C20 - tenant identifiers are validated, normalised (and, in package user,
// propagated unchanged). The organisation header value is an arbitrary byte
// string: every byte is a solver variable.

func init() {
	vfRegister("HarnessC20_Valid", HarnessC20_Valid)
	vfRegister("HarnessC20_TooLong", HarnessC20_TooLong)
	vfRegister("HarnessC20_Resolve", HarnessC20_Resolve)
}

// specSafeByte: the documented safe characters: letters, digits and ! - _ . * ' ( )
func specSafeByte(c byte) bool {
	letter := vfOr(vfAnd(c >= 'a', c <= 'z'), vfAnd(c >= 'A', c <= 'Z'))
	digit := vfAnd(c >= '0', c <= '9')
	special := vfOr(vfOr(vfOr(c == '!', c == '-'), vfOr(c == '_', c == '.')), vfOr(vfOr(c == '*', c == '\''), vfOr(c == '(', c == ')')))
	return vfOr(vfOr(letter, digit), special)
}

func specValid(s string) bool {
	ok := len(s) <= MaxTenantIDLength
	for i := 0; i < len(s); i++ {
		ok = vfAnd(ok, specSafeByte(s[i]))
	}
	if len(s) == 1 {
		ok = vfAnd(ok, s[0] != '.')
	}
	if len(s) == 2 {
		ok = vfAnd(ok, vfNot(vfAnd(s[0] == '.', s[1] == '.')))
	}
	return ok
}

// HarnessC20_Valid: ValidTenantID accepts exactly the documented identifiers.
func HarnessC20_Valid() {
	n := vfChoice("len", vfParam("len", 5)+1)
	s := vfStr("id", n)
	err := ValidTenantID(s)
	vfObserve("ok", err == nil)
	want := specValid(s)
	vfAssert((err == nil) == want, "C20 an identifier is accepted iff it consists of safe characters, is at most 150 bytes and is not '.' or '..'")
	if err == nil {
		for i := 0; i < len(s); i++ {
			c := s[i]
			vfAssert(vfAnd(vfAnd(c != '/', c != '|'), vfAnd(c != ':', c != 0)), "C20 an accepted identifier carries no path separator, list separator, metadata separator or NUL")
		}
		vfCover("c20-valid-accepted")
	} else {
		vfCover("c20-valid-rejected")
	}
}

// HarnessC20_TooLong: the length bound, with symbolic bytes at both ends.
func HarnessC20_TooLong() {
	n := 149 + vfChoice("len", 3) // 149, 150, 151
	b := make([]byte, n)
	for i := range b {
		b[i] = 'a'
	}
	b[0] = vfU8("first")
	b[n-1] = vfU8("last")
	s := string(b)
	err := ValidTenantID(s)
	want := vfAnd(n <= 150, vfAnd(specSafeByte(b[0]), specSafeByte(b[n-1])))
	vfAssert((err == nil) == want, "C20 identifiers longer than 150 bytes are rejected, up to 150 accepted")
	vfCover("c20-toolong-done")
}

// specParts splits on '|' and strips ':'-metadata; concrete control flow given
// decided comparisons.
func specParts(s string) []string {
	var parts []string
	start := 0
	for i := 0; i <= len(s); i++ {
		if i == len(s) || s[i] == '|' {
			p := s[start:i]
			for j := 0; j < len(p); j++ {
				if p[j] == ':' {
					p = p[:j]
					break
				}
			}
			parts = append(parts, p)
			start = i + 1
		}
	}
	return parts
}

// HarnessC20_Resolve: single- and multi-tenant resolution agree and normalise.
func HarnessC20_Resolve() {
	n := vfChoice("len", vfParam("len", 4)+1)
	s := vfStr("org", n)
	ctx := user.InjectOrgID(context.Background(), s)
	one, errOne := TenantID(ctx)
	many, errMany := TenantIDs(ctx)
	parts := specParts(s)
	allValid := true
	for _, p := range parts {
		allValid = vfAnd(allValid, specValid(p))
	}
	vfObserve("errMany", errMany != nil)
	vfObserve("errOne", errOne != nil)
	// multi-tenant resolution succeeds iff every supplied identifier is valid
	vfAssert((errMany == nil) == allValid, "C20 multi-tenant resolution succeeds iff every supplied identifier (metadata stripped) is valid")
	if errMany == nil {
		// sorted, duplicate-free
		for i := 1; i < len(many); i++ {
			vfAssert(many[i-1] < many[i], "C20 multi-tenant resolution returns a sorted duplicate-free list")
		}
		// same set as the supplied parts
		for _, p := range parts {
			found := false
			for _, m := range many {
				found = vfOr(found, m == p)
			}
			vfAssert(found, "C20 every supplied tenant is returned")
		}
		for _, m := range many {
			found := false
			for _, p := range parts {
				found = vfOr(found, m == p)
			}
			vfAssert(found, "C20 only supplied tenants are returned")
		}
	}
	// single-tenant resolution succeeds iff multi-tenant resolution yields exactly one tenant
	if errOne == nil {
		vfAssert(errMany == nil, "C20 single-tenant success implies multi-tenant success")
		if errMany == nil {
			vfAssert(len(many) == 1, "C20 single-tenant resolution succeeds only if all supplied identifiers denote the same tenant")
			if len(many) == 1 {
				vfAssert(many[0] == one, "C20 single- and multi-tenant resolution agree")
			}
		}
		vfCover("c20-resolve-one")
	} else if errMany == nil {
		vfAssert(len(many) > 1, "C20 single-tenant resolution fails only for several distinct tenants (or invalid input)")
		vfCover("c20-resolve-many")
	} else {
		vfCover("c20-resolve-invalid")
	}
}
