//go:build verif

package user

import (
	"context"
	"net/http"

	"google.golang.org/grpc/metadata"
)

// C20 (propagation) - the organisation identifier placed in a context arrives
// unchanged after every hop through HTTP headers and gRPC metadata; a request
// without one is rejected, never given a default.

func init() {
	vfRegister("HarnessC20_Propagate", HarnessC20_Propagate)
	vfRegister("HarnessC20_Missing", HarnessC20_Missing)
}

func vfHTTPHop(ctx context.Context) (string, context.Context, error) {
	req := &http.Request{Header: http.Header{}}
	if err := InjectOrgIDIntoHTTPRequest(ctx, req); err != nil {
		return "", nil, err
	}
	return ExtractOrgIDFromHTTPRequest(req)
}

func vfGRPCHop(ctx context.Context) (string, context.Context, error) {
	out, err := InjectIntoGRPCRequest(ctx)
	if err != nil {
		return "", nil, err
	}
	md, _ := metadata.FromOutgoingContext(out)
	in := metadata.NewIncomingContext(context.Background(), md)
	return ExtractFromGRPCRequest(in)
}

func HarnessC20_Propagate() {
	n := 1 + vfChoice("len", vfParam("len", 4))
	s := vfStr("org", n)
	ctx := InjectOrgID(context.Background(), s)
	hops := 1 + vfChoice("hops", vfParam("hops", 3))
	for h := 0; h < hops; h++ {
		var id string
		var err error
		if vfChoice("kind", 2) == 0 {
			id, ctx, err = vfHTTPHop(ctx)
		} else {
			id, ctx, err = vfGRPCHop(ctx)
		}
		vfAssert(err == nil, "C20 a non-empty organisation id passes every hop")
		if err != nil {
			return
		}
		vfAssert(id == s, "C20 the organisation id arrives unchanged after a hop")
	}
	got, err := ExtractOrgID(ctx)
	vfObserve("got", got)
	vfAssert(err == nil && got == s, "C20 the organisation id in the final context equals the injected one, byte for byte")
	vfCover("c20-propagate-done")
}

func HarnessC20_Missing() {
	// no id in the context
	_, err := ExtractOrgID(context.Background())
	vfAssert(err == ErrNoOrgID, "C20 a context without organisation id is rejected")
	req := &http.Request{Header: http.Header{}}
	vfAssert(InjectOrgIDIntoHTTPRequest(context.Background(), req) == ErrNoOrgID, "C20 nothing is injected into HTTP without an id")
	id, _, err := ExtractOrgIDFromHTTPRequest(req)
	vfAssert(err == ErrNoOrgID && id == "", "C20 an HTTP request without the header is rejected, no default")
	req.Header.Set(OrgIDHeaderName, "")
	id, _, err = ExtractOrgIDFromHTTPRequest(req)
	vfAssert(err == ErrNoOrgID && id == "", "C20 an HTTP request with an empty header is rejected, no default")
	_, err = InjectIntoGRPCRequest(context.Background())
	vfAssert(err == ErrNoOrgID, "C20 nothing is injected into gRPC without an id")
	id, _, err = ExtractFromGRPCRequest(context.Background())
	vfAssert(err == ErrNoOrgID && id == "", "C20 a gRPC request without metadata is rejected, no default")
	in := metadata.NewIncomingContext(context.Background(), metadata.MD{})
	id, _, err = ExtractFromGRPCRequest(in)
	vfAssert(err == ErrNoOrgID && id == "", "C20 a gRPC request without the key is rejected, no default")
	// an arbitrary header value is either taken as is or rejected as missing
	n := vfChoice("len", vfParam("len", 3)+1)
	s := vfStr("hdr", n)
	req2 := &http.Request{Header: http.Header{}}
	req2.Header.Set(OrgIDHeaderName, s)
	id, ctx, err := ExtractOrgIDFromHTTPRequest(req2)
	if n == 0 {
		vfAssert(err == ErrNoOrgID, "C20 empty header rejected")
	} else {
		vfAssert(err == nil && id == s, "C20 a present header value is taken unchanged")
		got, err2 := ExtractOrgID(ctx)
		vfAssert(err2 == nil && got == s, "C20 and lands in the context unchanged")
	}
	vfCover("c20-missing-done")
}

func init() { vfRegister("HarnessC20_Conflicting", HarnessC20_Conflicting) }

// HarnessC20_Conflicting: a request that carries several organisation-id
// values (a proxy or a client library appended instead of replacing) is never
// resolved to one of them unless they all agree: up to 4 gRPC metadata values
// / HTTP header values, each one symbolic byte.
func HarnessC20_Conflicting() {
	k := vfChoice("values", vfParam("values", 4)+1)
	vals := make([]string, k)
	for i := range vals {
		vals[i] = vfStr("v", 1)
	}
	allEqual := true
	for i := 1; i < k; i++ {
		allEqual = vfAnd(allEqual, vals[i] == vals[0])
	}
	md := metadata.MD{}
	if k > 0 {
		md[lowerOrgIDHeaderName] = vals
	}
	id, ctx, err := ExtractFromGRPCRequest(metadata.NewIncomingContext(context.Background(), md))
	if k == 0 {
		vfAssert(err == ErrNoOrgID, "C20 a gRPC request without the key is rejected, no default")
	}
	if err == nil {
		vfAssert(k >= 1, "C20 an accepted gRPC request carried an organisation id")
		vfAssert(allEqual, "C20 a gRPC request carrying conflicting organisation ids is rejected")
		vfAssert(id == vals[0], "C20 the accepted organisation id is the one supplied")
		got, err2 := ExtractOrgID(ctx)
		vfAssert(err2 == nil && got == id, "C20 and lands in the context unchanged")
	}
	if k == 1 {
		vfAssert(err == nil, "C20 a gRPC request with exactly one organisation id is accepted")
	}
	vfCover("c20-conflicting-done")
}
