//go:build verif

package middleware

import (
	"context"
	"net/http"

	"google.golang.org/grpc"
	"google.golang.org/grpc/metadata"

	"github.com/grafana/dskit/user"
)

// C20 (middleware): the gRPC and HTTP auth interceptors propagate the
// organisation id unchanged and reject requests without one.

func init() { vfRegister("HarnessC20_Middleware", HarnessC20_Middleware) }

type vfRecorder struct {
	hdr  http.Header
	code int
}

func (r *vfRecorder) Header() http.Header         { return r.hdr }
func (r *vfRecorder) Write(b []byte) (int, error) { return len(b), nil }
func (r *vfRecorder) WriteHeader(c int)           { r.code = c }

func HarnessC20_Middleware() {
	n := vfChoice("len", vfParam("len", 3)+1)
	s := vfStr("org", n)
	ctx := context.Background()
	if vfChoice("present", 2) == 1 {
		ctx = user.InjectOrgID(ctx, s)
	} else {
		n = -1 // no id at all
	}
	// gRPC client interceptor -> (transport) -> server interceptor
	var sent context.Context
	invoked := false
	err := ClientUserHeaderInterceptor(ctx, "/m", nil, nil, nil, func(c context.Context, method string, req, reply interface{}, cc *grpc.ClientConn, opts ...grpc.CallOption) error {
		invoked = true
		sent = c
		return nil
	})
	if n < 0 {
		vfAssert(err == user.ErrNoOrgID && !invoked, "C20 the gRPC client interceptor rejects a call without organisation id")
	} else {
		vfAssert(err == nil && invoked, "C20 the gRPC client interceptor passes a call with an organisation id")
		md, _ := metadata.FromOutgoingContext(sent)
		in := metadata.NewIncomingContext(context.Background(), md)
		handled := false
		_, herr := ServerUserHeaderInterceptor(in, nil, nil, func(c context.Context, req interface{}) (interface{}, error) {
			handled = true
			got, e := user.ExtractOrgID(c)
			vfAssert(e == nil && got == s, "C20 the gRPC server interceptor hands the organisation id to the handler unchanged")
			return nil, nil
		})
		vfAssert(herr == nil && handled, "C20 the gRPC server interceptor accepts a request carrying an organisation id")
	}
	// a gRPC request without metadata is rejected, the handler does not run
	handled := false
	_, herr := ServerUserHeaderInterceptor(context.Background(), nil, nil, func(c context.Context, req interface{}) (interface{}, error) {
		handled = true
		return nil, nil
	})
	vfAssert(herr == user.ErrNoOrgID && !handled, "C20 the gRPC server interceptor rejects a request without organisation id")

	// HTTP middleware
	req := &http.Request{Header: http.Header{}}
	if n >= 0 {
		req.Header.Set(user.OrgIDHeaderName, s)
	}
	served := false
	h := AuthenticateUser.Wrap(http.HandlerFunc(func(w http.ResponseWriter, r *http.Request) {
		served = true
		got, e := user.ExtractOrgID(r.Context())
		vfAssert(e == nil && got == s, "C20 the HTTP middleware hands the organisation id to the handler unchanged")
	}))
	rec := &vfRecorder{hdr: http.Header{}}
	h.ServeHTTP(rec, req)
	if n <= 0 {
		vfAssert(!served && rec.code == http.StatusUnauthorized, "C20 the HTTP middleware rejects a request without (or with an empty) organisation id, never a default")
		vfCover("c20-mw-rejected")
	} else {
		vfAssert(served, "C20 the HTTP middleware accepts a request carrying an organisation id")
		vfCover("c20-mw-accepted")
	}
}
