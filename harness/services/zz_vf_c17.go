//go:build verif

package services

import (
	"context"
	"errors"
)

// C17 - services and their manager follow the state machine. The real
// BasicService / Manager run on cooperative engine threads; a controller
// performs, after each quiescence, any enabled external event (start, stop,
// cancellation of the parent context, a function returning, a listener being
// added), so every ORDER of these events is explored; the outcomes of the
// three functions are solver booleans. An optional preemption budget places
// context switches before mutex acquisitions inside the transitions.
//
// This is schedule enumeration carried out by the symbolic executor at the
// granularity of blocking operations (plus the stated preemption budget), not a
// proof over all interleavings.

func init() {
	vfRegisterBubble("HarnessC17_Service", HarnessC17_Service)
	vfRegisterBubble("HarnessC17_Manager", HarnessC17_Manager)
}

type vfEv struct {
	to   State
	from State
	err  error
}

type vfRecListener struct {
	evs []vfEv
}

func (l *vfRecListener) Starting()                   { l.evs = append(l.evs, vfEv{to: Starting, from: New}) }
func (l *vfRecListener) Running()                    { l.evs = append(l.evs, vfEv{to: Running, from: Starting}) }
func (l *vfRecListener) Stopping(from State)         { l.evs = append(l.evs, vfEv{to: Stopping, from: from}) }
func (l *vfRecListener) Terminated(from State)       { l.evs = append(l.evs, vfEv{to: Terminated, from: from}) }
func (l *vfRecListener) Failed(from State, e error) { l.evs = append(l.evs, vfEv{to: Failed, from: from, err: e}) }

var (
	vfErrStart = errors.New("start failed")
	vfErrRun   = errors.New("run failed")
	vfErrStop  = errors.New("stop failed")
)

func vfLegalEdge(from, to State) bool {
	switch {
	case from == New && (to == Starting || to == Terminated):
		return true
	case from == Starting && (to == Running || to == Stopping || to == Failed):
		return true
	case from == Running && to == Stopping:
		return true
	case from == Stopping && (to == Terminated || to == Failed):
		return true
	}
	return false
}

func vfTerminal(s State) bool { return s == Terminated || s == Failed }

func HarnessC17_Service() {
	errStart, errRun, errStop := vfBool("start_fails"), vfBool("run_fails"), vfBool("stop_fails")
	startGate, stopGate, runReturn := make(chan struct{}), make(chan struct{}), make(chan struct{})
	var order []string
	nStart, nRun, nStop := 0, 0, 0
	inStart, inRun, inStop := false, false, false
	ctxCancelledAtStop := false
	ctxLiveAtStart := false
	var stopArg error
	var svc *BasicService
	svc = NewBasicService(
		func(ctx context.Context) error {
			nStart++
			order = append(order, "start")
			ctxLiveAtStart = ctx != nil
			inStart = true
			<-startGate
			inStart = false
			if errStart {
				return vfErrStart
			}
			return nil
		},
		func(ctx context.Context) error {
			nRun++
			order = append(order, "run")
			inRun = true
			select {
			case <-ctx.Done():
			case <-runReturn:
			}
			inRun = false
			if errRun {
				return vfErrRun
			}
			return nil
		},
		func(failure error) error {
			nStop++
			order = append(order, "stop")
			stopArg = failure
			ctxCancelledAtStop = svc.ServiceContext() != nil && svc.ServiceContext().Err() != nil
			inStop = true
			<-stopGate
			inStop = false
			if errStop {
				return vfErrStop
			}
			return nil
		})
	l1 := &vfRecListener{}
	svc.AddListener(l1)
	var l2 *vfRecListener
	l2From := 0 // number of transitions that had happened when the late listener was added
	// waiters
	var rRes, tRes error
	rDone, tDone := false, false
	go func() { rRes = svc.AwaitRunning(context.Background()); rDone = true }()
	go func() { tRes = svc.AwaitTerminated(context.Background()); tDone = true }()
	parent, cancelParent := context.WithCancel(context.Background())
	startCalled, startAccepted, stopCalled, cancelled, startOpen, stopOpen, runReleased := false, false, false, false, false, false, false
	checkWaiters := func() {
		st := svc.State()
		vfAssert(rDone == (st != New && st != Starting), "C17 a waiter for running returns exactly when running is reached or can no longer be reached")
		vfAssert(tDone == vfTerminal(st), "C17 a waiter for termination returns exactly when a terminal state is reached")
	}
	for step := 0; step < vfParam("steps", 9); step++ {
		vfQuiesce()
		checkWaiters()
		var acts []int
		if !startCalled {
			acts = append(acts, 0)
		}
		if !stopCalled {
			acts = append(acts, 1)
		}
		if !cancelled && startCalled {
			acts = append(acts, 2)
		}
		if inStart && !startOpen {
			acts = append(acts, 3)
		}
		if inRun && !runReleased {
			acts = append(acts, 4)
		}
		if inStop && !stopOpen {
			acts = append(acts, 5)
		}
		if l2 == nil {
			acts = append(acts, 6)
		}
		if len(acts) == 0 {
			break
		}
		a := acts[0]
		if len(acts) > 1 {
			a = acts[vfChoice("event", len(acts))]
		}
		switch a {
		case 0:
			startCalled = true
			before := svc.State()
			err := svc.StartAsync(parent)
			startAccepted = err == nil
			vfAssert(startAccepted == (before == New), "C17 a start request is accepted exactly in the new state")
		case 1:
			stopCalled = true
			svc.StopAsync()
		case 2:
			cancelled = true
			cancelParent()
		case 3:
			startOpen = true
			close(startGate)
		case 4:
			runReleased = true
			close(runReturn)
		case 5:
			stopOpen = true
			close(stopGate)
		case 6:
			l2 = &vfRecListener{}
			l2From = len(l1.evs)
			svc.AddListener(l2)
		}
	}
	// drive to the end: stop, open every gate
	vfQuiesce()
	if !stopCalled {
		svc.StopAsync()
	}
	vfQuiesce()
	if !startOpen {
		close(startGate)
	}
	vfQuiesce()
	if !stopOpen {
		close(stopGate)
	}
	vfQuiesce()
	cancelParent()
	vfQuiesce()
	checkWaiters()
	final := svc.State()
	vfAssert(vfTerminal(final), "C17 a stopped service ends in a terminal state")
	// functions: at most once each, in order; stop iff start succeeded; context cancelled before stop
	vfAssert(nStart <= 1 && nRun <= 1 && nStop <= 1, "C17 starting, running and stopping functions each run at most once")
	for i, o := range order {
		if i > 0 {
			prev := order[i-1]
			vfAssert((prev == "start" && (o == "run" || o == "stop")) || (prev == "run" && o == "stop"), "C17 the functions run in the order starting, running, stopping")
		} else {
			vfAssert(o == "start", "C17 the functions run in the order starting, running, stopping")
		}
	}
	vfAssert(nStart == 1 == startAccepted, "C17 the starting function runs exactly when the start request was accepted")
	if nStart == 1 {
		vfAssert(ctxLiveAtStart, "C17 the starting function receives the service context")
	}
	vfAssert((nStop == 1) == (nStart == 1 && !errStart), "C17 the stopping function runs if and only if starting succeeded")
	if nRun == 1 {
		vfAssert(nStart == 1 && !errStart, "C17 the running function runs only after a successful start")
	}
	if nStop == 1 {
		vfAssert(ctxCancelledAtStop, "C17 the service context is cancelled before the stopping function runs")
		if nRun == 1 && errRun {
			vfAssert(stopArg == vfErrRun, "C17 the stopping function is told why the service is stopping")
		} else {
			vfAssert(stopArg == nil, "C17 the stopping function is told why the service is stopping")
		}
	}
	// final state and failure cause = the first error
	var want error
	switch {
	case nStart == 1 && errStart:
		want = vfErrStart
	case nRun == 1 && errRun:
		want = vfErrRun
	case nStop == 1 && errStop:
		want = vfErrStop
	}
	if want != nil {
		vfAssert(final == Failed && svc.FailureCase() == want, "C17 a service whose function failed ends failed, the cause being the first error")
		vfAssert(tRes != nil && errors.Is(tRes, want), "C17 waiting for termination of a failed service reports the failure cause")
	} else {
		vfAssert(final == Terminated && svc.FailureCase() == nil, "C17 a service whose functions all succeeded ends terminated")
		vfAssert(tRes == nil, "C17 waiting for termination of a terminated service succeeds")
	}
	if rRes == nil {
		vfAssert(nRun == 1, "C17 waiting for running succeeds only if the service ran")
	}
	// listener: every transition once, in order, along legal edges, ending at the final state
	cur := New
	for _, e := range l1.evs {
		vfAssert(e.from == cur && vfLegalEdge(cur, e.to), "C17 the service moves only along the edges of the state machine and listeners see each transition in order")
		if e.to == Failed {
			vfAssert(e.err == want, "C17 listeners are told the failure cause")
		}
		cur = e.to
	}
	vfAssert(cur == final, "C17 listeners see every transition up to the terminal state")
	sawRunning := false
	for _, e := range l1.evs {
		if e.to == Running {
			sawRunning = true
		}
	}
	vfAssert(sawRunning == (nRun == 1), "C17 the running function runs exactly when the running state is entered")
	if l2 != nil {
		vfAssert(len(l2.evs) == len(l1.evs)-l2From, "C17 a listener added later sees exactly the transitions that follow")
		for i, e := range l2.evs {
			if l2From+i < len(l1.evs) {
				o := l1.evs[l2From+i]
				vfAssert(e.to == o.to && e.from == o.from, "C17 all listeners see the same transitions in the same order")
			}
		}
	}
	vfAssert(vfBlockedThreads() == 0, "C17 nothing is left blocked once the service is terminal")
	vfCover("c17-service-done")
}

type vfMgrListener struct {
	healthy, stopped int
	failures         []Service
}

func (l *vfMgrListener) Healthy()          { l.healthy++ }
func (l *vfMgrListener) Stopped()          { l.stopped++ }
func (l *vfMgrListener) Failure(s Service) { l.failures = append(l.failures, s) }

func HarnessC17_Manager() {
	n := vfParam("services", 2)
	errStart := make([]bool, n)
	errRun := make([]bool, n)
	startGate := make([]chan struct{}, n)
	runReturn := make([]chan struct{}, n)
	inStart := make([]bool, n)
	inRun := make([]bool, n)
	startOpen := make([]bool, n)
	runReleased := make([]bool, n)
	svcs := make([]Service, n)
	for i := 0; i < n; i++ {
		i := i
		errStart[i], errRun[i] = vfBool("start_fails"), vfBool("run_fails")
		startGate[i], runReturn[i] = make(chan struct{}), make(chan struct{})
		svcs[i] = NewBasicService(
			func(context.Context) error {
				inStart[i] = true
				<-startGate[i]
				inStart[i] = false
				if errStart[i] {
					return vfErrStart
				}
				return nil
			},
			func(ctx context.Context) error {
				inRun[i] = true
				select {
				case <-ctx.Done():
				case <-runReturn[i]:
				}
				inRun[i] = false
				if errRun[i] {
					return vfErrRun
				}
				return nil
			}, nil)
	}
	m, err := NewManager(svcs...)
	vfAssert(err == nil, "C17 manager is created over new services")
	ml := &vfMgrListener{}
	m.AddListener(ml)
	var hRes error
	hDone, sDone := false, false
	go func() { hRes = m.AwaitHealthy(context.Background()); hDone = true }()
	go func() { _ = m.AwaitStopped(context.Background()); sDone = true }()
	started, stopped := false, false
	everHealthy, healthyImpossible := false, false
	check := func() {
		running, terminal, leaving := 0, 0, 0
		for _, s := range svcs {
			switch s.State() {
			case Running:
				running++
			case Terminated, Failed:
				terminal++
				leaving++
			case Stopping:
				leaving++
			}
		}
		vfAssert(m.IsHealthy() == (running == n), "C17 a manager is healthy exactly while all its services run")
		vfAssert(m.IsStopped() == (terminal == n), "C17 a manager is stopped exactly when all its services are terminal")
		if running == n {
			everHealthy = true
		}
		if leaving > 0 && !everHealthy {
			healthyImpossible = true
		}
		vfAssert(hDone == (everHealthy || healthyImpossible), "C17 a waiter for health returns exactly when health is reached or can no longer be reached")
		if hDone && hRes == nil {
			vfAssert(everHealthy, "C17 waiting for health succeeds only if the manager was healthy")
		}
		vfAssert(sDone == (terminal == n), "C17 a waiter for the stopped state returns exactly when all services are terminal")
		vfAssert(ml.healthy <= 1 && (ml.healthy == 1) == everHealthy, "C17 listeners are told about health once, when it is reached")
		vfAssert(ml.stopped == vfIteInt(terminal == n, 1, 0), "C17 listeners are told about the stopped state once, when it is reached")
		for _, s := range svcs {
			cnt := 0
			for _, f := range ml.failures {
				if f == s {
					cnt++
				}
			}
			vfAssert(cnt == vfIteInt(s.State() == Failed, 1, 0), "C17 a manager reports each failed service once")
		}
	}
	for step := 0; step < vfParam("steps", 8); step++ {
		vfQuiesce()
		check()
		var acts []int
		if !started {
			acts = append(acts, 0)
		}
		if !stopped {
			acts = append(acts, 1)
		}
		for i := 0; i < n; i++ {
			if inStart[i] && !startOpen[i] {
				acts = append(acts, 10+i)
			}
			if inRun[i] && !runReleased[i] {
				acts = append(acts, 20+i)
			}
		}
		if len(acts) == 0 {
			break
		}
		a := acts[0]
		if len(acts) > 1 {
			a = acts[vfChoice("event", len(acts))]
		}
		switch {
		case a == 0:
			started = true
			_ = m.StartAsync(context.Background())
		case a == 1:
			stopped = true
			m.StopAsync()
		case a >= 20:
			runReleased[a-20] = true
			close(runReturn[a-20])
		default:
			startOpen[a-10] = true
			close(startGate[a-10])
		}
	}
	vfQuiesce()
	if !stopped {
		m.StopAsync()
	}
	vfQuiesce()
	for i := 0; i < n; i++ {
		if !startOpen[i] {
			close(startGate[i])
		}
	}
	vfQuiesce()
	check()
	vfAssert(m.IsStopped(), "C17 a stopped manager's services are all terminal")
	vfAssert(vfBlockedThreads() == 0, "C17 nothing is left blocked once the manager is stopped")
	vfCover("c17-manager-done")
}
